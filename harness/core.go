// Package harness holds the simulated workloads and oracles of every claimed property.  It
// is copied into the scratch copy of the repository (pkg/zverif/harness) and compiled into
// one test binary that vcheck drives, one job per process.
package harness

import (
	"bytes"
	"crypto/sha256"
	"encoding/hex"
	"encoding/json"
	"fmt"
	"os"
	"sort"
	"strings"
	"sync"
	"testing"
	"testing/synctest"

	"git.metabarcoding.org/obitools/obitools4/obitools4/pkg/obiiter"
	"git.metabarcoding.org/obitools/obitools4/obitools4/pkg/zverif/simrt"
	log "github.com/sirupsen/logrus"
)

// Job is what vcheck hands to a worker process (file named by $VERIF_JOB).
type Job struct {
	Prop     string   `json:"prop"`
	Tier     string   `json:"tier"`
	Mode     string   `json:"mode"` // info | run | replay
	BaseSeed uint64   `json:"base_seed"`
	Indices  []int    `json:"indices"`
	Replays  []Replay `json:"replays"`
	Dir      string   `json:"dir"` // private scratch directory of this job
}

// Replay fixes a run completely: the two tapes (and, for information, what it showed).
type Replay struct {
	Property string  `json:"property"`
	Tier     string  `json:"tier"`
	Index    int     `json:"index"`
	Seed     uint64  `json:"seed"`
	Plan     []int32 `json:"plan"`
	Sched    []int32 `json:"sched"`
	Class    string  `json:"class,omitempty"`
	Msg      string  `json:"message,omitempty"`
	Detail   string  `json:"detail,omitempty"`
	Sample   any     `json:"sample,omitempty"`
	LogSHA   string  `json:"event_log_sha,omitempty"`
	Note     string  `json:"note,omitempty"`
}

type Outcome struct {
	Index      int            `json:"index"`
	Seed       uint64         `json:"seed"`
	Status     string         `json:"status"` // ok | violation | inconclusive
	Class      string         `json:"class,omitempty"`
	Msg        string         `json:"msg,omitempty"`
	Detail     string         `json:"detail,omitempty"`
	Sig        string         `json:"sig,omitempty"`
	Policy     string         `json:"policy,omitempty"`
	Steps      int            `json:"steps"`
	Contended  int            `json:"contended"`
	Tasks      int            `json:"tasks"`
	SimUS      int64          `json:"sim_us"`
	Faults     map[string]int `json:"faults,omitempty"`
	Probes     map[string]int `json:"probes,omitempty"`
	Key        string         `json:"key,omitempty"`
	Nontrivial bool           `json:"nontrivial"`
	Sample     any            `json:"sample,omitempty"`
	Plan       []int32        `json:"plan,omitempty"`
	Sched      []int32        `json:"sched,omitempty"`
	LogSHA     string         `json:"log_sha"`
	Enumerated bool           `json:"enumerated,omitempty"`
}

// RunCtx is one simulated run.
type RunCtx struct {
	T     *testing.T
	Prop  string
	Tier  string
	Index int
	Seed  uint64
	Plan  *simrt.Tape
	Sched *simrt.Tape
	Dir   string
	Out   *Outcome
	hash  []string
}

func (rc *RunCtx) Thorough() bool { return rc.Tier == "thorough" }

// Log adds a line to the event log whose hash is compared by the determinism self-test.
func (rc *RunCtx) Log(format string, a ...any) {
	rc.hash = append(rc.hash, fmt.Sprintf(format, a...))
}

func (rc *RunCtx) Fault(kind string) {
	if rc.Out.Faults == nil {
		rc.Out.Faults = map[string]int{}
	}
	rc.Out.Faults[kind]++
}

func (rc *RunCtx) Probe(name string) {
	if rc.Out.Probes == nil {
		rc.Out.Probes = map[string]int{}
	}
	rc.Out.Probes[name]++
}

// Violate records the first violation of the run.
func (rc *RunCtx) Violate(class, format string, a ...any) {
	if rc.Out.Status == "violation" {
		return
	}
	rc.Out.Status = "violation"
	rc.Out.Class = class
	rc.Out.Msg = clip(fmt.Sprintf(format, a...), 1500)
}

func (rc *RunCtx) Inconclusive(format string, a ...any) {
	if rc.Out.Status == "ok" {
		rc.Out.Status = "inconclusive"
		rc.Out.Msg = clip(fmt.Sprintf(format, a...), 1500)
	}
}

func clip(s string, n int) string {
	if len(s) > n {
		return s[:n] + "…"
	}
	return s
}

// Property is a harness family entry.
type Property struct {
	ID string
	// PerProcess: one run per OS process (command-level families: option parsing writes
	// package globals).
	PerProcess bool
	// JobTimeoutSec: watchdog of one worker job when the family has runs that take minutes
	// (0: the driver's default).
	JobTimeoutSec int
	// Enum returns the number of enumerated (exhaustive sub-space) cases of the tier and the
	// plan-tape prefix of case i.  nil: no enumerated part.
	Enum func(tier string) int
	Case func(tier string, i int) []int32
	// Random is the number of random runs of the tier.
	Random func(tier string) int
	Run    func(rc *RunCtx)
	// Real / Stub list what ran as real code and what was a stand-in (for the evidence).
	Real, Stub []string
	Rule       string
	Level      string
}

var registry = map[string]*Property{}

func register(p *Property) { registry[p.ID] = p }

// ---------------------------------------------------------------- simulation wrapper

type SimOpts struct {
	Knobs        map[string]int
	PoolPolicy   int
	YieldDensity int
	MaxSteps     int
	Policy       int // 0: drawn from the tape; k>0: policy k-1
	CrashAt      int // >0: the simulated process is killed at that step
}

type fatalHook struct {
	mu   sync.Mutex
	last string
	all  []string
}

func (h *fatalHook) Levels() []log.Level {
	return []log.Level{log.PanicLevel, log.FatalLevel, log.ErrorLevel, log.WarnLevel}
}
func (h *fatalHook) Fire(e *log.Entry) error {
	h.mu.Lock()
	defer h.mu.Unlock()
	if e.Level <= log.FatalLevel {
		h.last = e.Message
	}
	if len(h.all) < 30 {
		h.all = append(h.all, e.Level.String()+": "+clip(e.Message, 200))
	}
	return nil
}

type syncBuf struct {
	mu sync.Mutex
	b  bytes.Buffer
}

func (s *syncBuf) Write(p []byte) (int, error) {
	s.mu.Lock()
	defer s.mu.Unlock()
	if s.b.Len() < 1<<16 {
		s.b.Write(p)
	}
	return len(p), nil
}

type SimResult struct {
	simrt.Result
	FatalMsg string
	LogLines []string
}

// Sim runs root under the simulator inside a fresh synctest bubble.
func (rc *RunCtx) Sim(opts SimOpts, root func()) SimResult {
	hook := &fatalHook{}
	lg := log.StandardLogger()
	lg.ReplaceHooks(log.LevelHooks{})
	lg.AddHook(hook)
	lg.SetOutput(&syncBuf{})
	lg.SetLevel(log.InfoLevel)
	lg.ExitFunc = func(code int) { simrt.ProcessExit(code) }
	obiiter.ZVerifReset()
	var res simrt.Result
	func() {
		defer func() {
			if r := recover(); r != nil {
				// the bubble ends with blocked goroutines after a simulated exit or a
				// deadlock: expected, the outcome is already in res
				if !(res.Exited || res.Deadlock || res.StepCap) && !strings.Contains(fmt.Sprint(r), "blocked goroutines remain") {
					res.Panic = fmt.Sprintf("harness panic: %v", r)
					res.Exited = true
					res.ExitCode = 2
				}
			}
		}()
		synctest.Test(rc.T, func(t *testing.T) {
			res = simrt.Run(simrt.Config{Sched: rc.Sched, Knobs: opts.Knobs, PoolPolicy: opts.PoolPolicy,
				YieldDensity: opts.YieldDensity, MaxSteps: opts.MaxSteps, Policy: opts.Policy - 1, CrashAt: opts.CrashAt}, root)
		})
	}()
	o := rc.Out
	o.Sig = res.Sig
	o.Policy = res.Policy
	o.Steps += res.Steps
	o.Contended += res.Contended
	o.Tasks += res.Tasks
	o.SimUS += res.SimTimeUS
	for k, v := range res.Probes {
		if o.Probes == nil {
			o.Probes = map[string]int{}
		}
		o.Probes[k] += v
	}
	rc.Log("sim sig=%s steps=%d exited=%v code=%d deadlock=%v", res.Sig, res.Steps, res.Exited, res.ExitCode, res.Deadlock)
	hook.mu.Lock()
	defer hook.mu.Unlock()
	return SimResult{Result: res, FatalMsg: hook.last, LogLines: hook.all}
}

// Liveness applies the only liveness oracle: once the input is exhausted and no fault is
// pending the run terminates.  A step-cap overrun is inconclusive, never a violation.
func (rc *RunCtx) Liveness(res SimResult, class string) bool {
	if res.StepCap {
		rc.Inconclusive("step cap reached after %d steps", res.Steps)
		return false
	}
	if res.Deadlock {
		rc.Violate(class+"/deadlock", "no task is runnable and none is sleeping, %d live tasks remain:\n%s",
			res.Live, strings.Join(res.Blocked, "\n"))
		return false
	}
	return true
}

func describeExit(res SimResult) string {
	if res.Panic != "" {
		return "panic: " + clip(res.Panic, 900)
	}
	return fmt.Sprintf("exit(%d) %q", res.ExitCode, clip(res.FatalMsg, 300))
}

// ---------------------------------------------------------------- worker

func sha(parts ...string) string {
	h := sha256.New()
	for _, p := range parts {
		h.Write([]byte(p))
		h.Write([]byte{0})
	}
	return hex.EncodeToString(h.Sum(nil))[:20]
}

func emit(kind string, v any) {
	b, _ := json.Marshal(v)
	fmt.Printf("%s %s\n", kind, b)
}

func runOne(t *testing.T, p *Property, job *Job, idx int, rp *Replay) *Outcome {
	seed := simrt.Mix(job.BaseSeed, uint64(idx)+1)
	out := &Outcome{Index: idx, Seed: seed, Status: "ok"}
	rc := &RunCtx{T: t, Prop: p.ID, Tier: job.Tier, Index: idx, Seed: seed, Dir: job.Dir, Out: out}
	if rp != nil {
		out.Seed = rp.Seed
		rc.Seed = rp.Seed
		rc.Plan = simrt.ReplayTape(rp.Plan)
		rc.Sched = simrt.ReplayTape(rp.Sched)
	} else {
		nenum := 0
		if p.Enum != nil {
			nenum = p.Enum(job.Tier)
		}
		if idx < nenum {
			rc.Plan = simrt.PrefixTape(p.Case(job.Tier, idx), simrt.Mix(seed, 11))
			out.Enumerated = true
		} else {
			rc.Plan = simrt.NewTape(simrt.Mix(seed, 11))
		}
		rc.Sched = simrt.NewTape(simrt.Mix(seed, 12))
	}
	p.Run(rc)
	out.Plan = append([]int32(nil), rc.Plan.Used()...)
	out.Sched = append([]int32(nil), rc.Sched.Used()...)
	out.LogSHA = sha(append(rc.hash, out.Status, out.Class)...)
	if out.Status == "ok" && len(out.Sched) > 4000 {
		// keep the result lines small; tapes are only needed to replay failures, and a
		// passing run is re-derivable from its seed
		out.Sched = nil
		out.Plan = nil
	}
	return out
}

// WorkerMain is the body of TestWorker.
func WorkerMain(t *testing.T) {
	path := os.Getenv("VERIF_JOB")
	if path == "" {
		t.Skip("no VERIF_JOB")
	}
	raw, err := os.ReadFile(path)
	if err != nil {
		t.Fatal(err)
	}
	var job Job
	if err := json.Unmarshal(raw, &job); err != nil {
		t.Fatal(err)
	}
	p := registry[job.Prop]
	if p == nil {
		t.Fatalf("unknown property %q", job.Prop)
	}
	switch job.Mode {
	case "info":
		ids := []string{}
		for id := range registry {
			ids = append(ids, id)
		}
		sort.Strings(ids)
		info := map[string]any{"prop": p.ID, "per_process": p.PerProcess, "job_timeout": p.JobTimeoutSec, "enum": 0, "random": p.Random(job.Tier),
			"real": p.Real, "stub": p.Stub, "rule": p.Rule, "level": p.Level, "all": ids}
		if p.Enum != nil {
			info["enum"] = p.Enum(job.Tier)
		}
		emit("INFO", info)
	case "run":
		for _, idx := range job.Indices {
			fmt.Printf("BEGIN %d\n", idx)
			out := runOne(t, p, &job, idx, nil)
			emit("RESULT", out)
			if p.PerProcess {
				break
			}
		}
	case "replay":
		for i := range job.Replays {
			rp := &job.Replays[i]
			fmt.Printf("BEGIN %d\n", i)
			out := runOne(t, p, &job, rp.Index, rp)
			out.Index = i
			emit("RESULT", out)
			if p.PerProcess {
				break
			}
		}
	default:
		t.Fatalf("unknown mode %q", job.Mode)
	}
	fmt.Println("END")
}
