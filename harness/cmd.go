package harness

import (
	"encoding/json"
	"fmt"
	"os"
	"os/exec"
	"os/signal"
	"path/filepath"
	"sort"
	"strings"
	"syscall"
	"testing"
	"time"

	"git.metabarcoding.org/obitools/obitools4/obitools4/pkg/zverif/simrt"

	cmd_obiannotate "git.metabarcoding.org/obitools/obitools4/obitools4/pkg/zverif/cmd/obiannotate"
	cmd_obiclean "git.metabarcoding.org/obitools/obitools4/obitools4/pkg/zverif/cmd/obiclean"
	cmd_obicomplement "git.metabarcoding.org/obitools/obitools4/obitools4/pkg/zverif/cmd/obicomplement"
	cmd_obiconvert "git.metabarcoding.org/obitools/obitools4/obitools4/pkg/zverif/cmd/obiconvert"
	cmd_obicount "git.metabarcoding.org/obitools/obitools4/obitools4/pkg/zverif/cmd/obicount"
	cmd_obicsv "git.metabarcoding.org/obitools/obitools4/obitools4/pkg/zverif/cmd/obicsv"
	cmd_obidemerge "git.metabarcoding.org/obitools/obitools4/obitools4/pkg/zverif/cmd/obidemerge"
	cmd_obidistribute "git.metabarcoding.org/obitools/obitools4/obitools4/pkg/zverif/cmd/obidistribute"
	cmd_obigrep "git.metabarcoding.org/obitools/obitools4/obitools4/pkg/zverif/cmd/obigrep"
	cmd_obimultiplex "git.metabarcoding.org/obitools/obitools4/obitools4/pkg/zverif/cmd/obimultiplex"
	cmd_obipairing "git.metabarcoding.org/obitools/obitools4/obitools4/pkg/zverif/cmd/obipairing"
	cmd_obipcr "git.metabarcoding.org/obitools/obitools4/obitools4/pkg/zverif/cmd/obipcr"
	cmd_obiscript "git.metabarcoding.org/obitools/obitools4/obitools4/pkg/zverif/cmd/obiscript"
	cmd_obisummary "git.metabarcoding.org/obitools/obitools4/obitools4/pkg/zverif/cmd/obisummary"
	cmd_obiuniq "git.metabarcoding.org/obitools/obitools4/obitools4/pkg/zverif/cmd/obiuniq"
)

// The real main bodies of the commands (copied by the instrumenter, func main -> func Main).
var mains = map[string]func(){
	"obiannotate":   cmd_obiannotate.Main,
	"obiclean":      cmd_obiclean.Main,
	"obicomplement": cmd_obicomplement.Main,
	"obiconvert":    cmd_obiconvert.Main,
	"obicount":      cmd_obicount.Main,
	"obicsv":        cmd_obicsv.Main,
	"obidemerge":    cmd_obidemerge.Main,
	"obidistribute": cmd_obidistribute.Main,
	"obigrep":       cmd_obigrep.Main,
	"obimultiplex":  cmd_obimultiplex.Main,
	"obipairing":    cmd_obipairing.Main,
	"obipcr":        cmd_obipcr.Main,
	"obiscript":     cmd_obiscript.Main,
	"obisummary":    cmd_obisummary.Main,
	"obiuniq":       cmd_obiuniq.Main,
}

// CmdSpec is one simulated execution of a command, run in a child process of its own: option
// parsing writes package-level variables, so no two commands share a process.
type CmdSpec struct {
	Name       string   `json:"name"`
	Args       []string `json:"args"`
	Dir        string   `json:"dir"`
	Stdin      string   `json:"stdin"`       // file redirected to fd 0 ("" = /dev/null)
	Stdout     string   `json:"stdout"`      // file that receives os.Stdout ("" = <dir>/stdout)
	StderrNull bool     `json:"stderr_null"` // os.Stderr is /dev/null (a character device, as a terminal is: progress bars are then active) instead of a file
	// StdinFailAfter >= 0 (with StdinData): fd 0 is a socket that delivers StdinFailAfter bytes
	// of StdinData and then fails with ECONNRESET - a real read(2) error on standard input
	StdinFailAfter int    `json:"stdin_fail_after"`
	StdinData      []byte `json:"-"`
	// StdinPipe (with StdinData and Stdin "@inherited"): fd 0 is a pipe that delivers StdinData
	// and then end of file - standard input as `cat file | command` gives it (not seekable)
	StdinPipe     bool              `json:"stdin_pipe"`
	Knobs         map[string]int    `json:"knobs"`
	PoolPolicy    int               `json:"pool_policy"`
	YieldDensity  int               `json:"yield_density"`
	Policy        int               `json:"policy"`
	MaxSteps      int               `json:"max_steps"`
	TimeoutSec    int               `json:"timeout_sec"`     // watchdog of the child (0: 60 s)
	CrashAt       int               `json:"crash_at"`        // >0: the command is killed at that scheduling step (whatever it has on disk stays)
	FileSizeLimit int               `json:"file_size_limit"` // >0: RLIMIT_FSIZE of the command: a write that would make any regular file larger fails (EFBIG), as on a full disk or over a quota
	Sched         simrt.SubTape     `json:"sched"`
	Env           map[string]string `json:"env"`
}

type CmdOutcome struct {
	Killed    bool           `json:"killed"`
	Exited    bool           `json:"exited"`
	ExitCode  int            `json:"exit_code"`
	Panic     string         `json:"panic"`
	Deadlock  bool           `json:"deadlock"`
	StepCap   bool           `json:"step_cap"`
	Steps     int            `json:"steps"`
	Contended int            `json:"contended"`
	Tasks     int            `json:"tasks"`
	SimUS     int64          `json:"sim_us"`
	Sig       string         `json:"sig"`
	Policy    string         `json:"policy"`
	Probes    map[string]int `json:"probes"`
	FatalMsg  string         `json:"fatal_msg"`
	LogLines  []string       `json:"log_lines"`
	Blocked   []string       `json:"blocked"`
	Used      []int32        `json:"used"`
	// set by the parent
	Crashed  bool   `json:"crashed"`
	TimedOut bool   `json:"timed_out"`
	Stderr   string `json:"stderr"`
}

func (o *CmdOutcome) Failed() bool { return o.Exited && (o.ExitCode != 0 || o.Panic != "") }

func (o *CmdOutcome) Describe() string {
	switch {
	case o.TimedOut:
		return "child killed by the watchdog"
	case o.Crashed:
		return "child process died: " + clip(o.Stderr, 1500)
	case o.StepCap:
		return fmt.Sprintf("step cap reached after %d scheduling steps", o.Steps)
	case o.Deadlock:
		return "deadlock: " + strings.Join(o.Blocked, "\n")
	case o.Panic != "":
		return "panic: " + clip(o.Panic, 1200)
	case o.Exited:
		return fmt.Sprintf("exit(%d) %q", o.ExitCode, clip(o.FatalMsg, 300))
	}
	return "normal return"
}

// The *os.File values the process started with are kept reachable for ever: replacing
// os.Stdin / os.Stdout / os.Stderr would otherwise leave them to the garbage collector, whose
// finalizer closes file descriptors 0, 1 and 2 under the feet of whoever reads them next.
var keepStdFiles = []*os.File{os.Stdin, os.Stdout, os.Stderr}

// SubCmdMain is the body of TestSubCmd: the child side.
func SubCmdMain(t *testing.T) {
	path := os.Getenv("VERIF_SUBCMD")
	if path == "" {
		t.Skip("no VERIF_SUBCMD")
	}
	raw, err := os.ReadFile(path)
	if err != nil {
		t.Fatal(err)
	}
	var spec CmdSpec
	if err := json.Unmarshal(raw, &spec); err != nil {
		t.Fatal(err)
	}
	main := mains[spec.Name]
	if main == nil {
		t.Fatalf("unknown command %q", spec.Name)
	}
	for k, v := range spec.Env {
		os.Setenv(k, v)
	}
	os.Setenv("TMPDIR", spec.Dir)
	// stdin: a regular file (or /dev/null) on fd 0, so that the C reader never blocks on a pipe
	in := spec.Stdin
	if in == "" {
		in = os.DevNull
	}
	if in != "@inherited" {
		fin, err := os.Open(in)
		if err != nil {
			t.Fatal(err)
		}
		if err := syscall.Dup2(int(fin.Fd()), 0); err != nil {
			t.Fatal(err)
		}
	}
	os.Stdin = os.NewFile(0, "/dev/stdin")
	outName := spec.Stdout
	if outName == "" {
		outName = filepath.Join(spec.Dir, "stdout")
	}
	fout, err := os.OpenFile(outName, os.O_WRONLY|os.O_CREATE|os.O_TRUNC, 0644)
	if err != nil {
		t.Fatal(err)
	}
	errName := filepath.Join(spec.Dir, "stderr")
	if spec.StderrNull {
		errName = os.DevNull
	}
	ferr, err := os.OpenFile(errName, os.O_WRONLY|os.O_CREATE|os.O_TRUNC, 0644)
	if err != nil {
		t.Fatal(err)
	}
	realStdout := os.Stdout
	os.Stdout = fout
	os.Stderr = ferr
	os.Args = append([]string{spec.Name}, spec.Args...)

	var oldLimit syscall.Rlimit
	if spec.FileSizeLimit > 0 {
		// SIGXFSZ ignored: the write returns EFBIG instead of killing the process
		signal.Ignore(syscall.SIGXFSZ)
		if err := syscall.Getrlimit(syscall.RLIMIT_FSIZE, &oldLimit); err != nil {
			t.Fatal(err)
		}
		if err := syscall.Setrlimit(syscall.RLIMIT_FSIZE, &syscall.Rlimit{Cur: uint64(spec.FileSizeLimit), Max: oldLimit.Max}); err != nil {
			t.Fatal(err)
		}
	}
	out := &Outcome{Status: "ok"}
	rc := &RunCtx{T: t, Out: out, Dir: spec.Dir, Sched: simrt.FromSubTape(spec.Sched)}
	res := rc.Sim(SimOpts{Knobs: spec.Knobs, PoolPolicy: spec.PoolPolicy, YieldDensity: spec.YieldDensity, Policy: spec.Policy, MaxSteps: spec.MaxSteps, CrashAt: spec.CrashAt}, main)
	if spec.FileSizeLimit > 0 {
		syscall.Setrlimit(syscall.RLIMIT_FSIZE, &oldLimit)
	}
	fout.Sync()
	co := CmdOutcome{Killed: res.Killed, Exited: res.Exited, ExitCode: res.ExitCode, Panic: res.Panic, Deadlock: res.Deadlock, StepCap: res.StepCap,
		Steps: res.Steps, Contended: res.Contended, Tasks: res.Tasks, SimUS: res.SimTimeUS, Sig: res.Sig, Policy: res.Policy,
		Probes: res.Probes, FatalMsg: res.FatalMsg, LogLines: res.LogLines, Blocked: res.Blocked, Used: rc.Sched.Used()}
	b, _ := json.Marshal(co)
	if err := os.WriteFile(filepath.Join(spec.Dir, "result.json"), b, 0644); err != nil {
		t.Fatal(err)
	}
	os.Stdout = realStdout
	fmt.Println("SUBCMD-DONE")
	// leaked goroutines of a simulated exit must not keep the process alive
	os.Exit(0)
}

var cmdSeq int

// RunCmd executes spec in a child process and returns its outcome; output files are in spec.Dir.
func (rc *RunCtx) RunCmd(spec CmdSpec) *CmdOutcome {
	cmdSeq++
	if spec.Dir == "" {
		spec.Dir = filepath.Join(rc.Dir, fmt.Sprintf("cmd%d", cmdSeq))
	}
	os.MkdirAll(spec.Dir, 0755)
	spec.Sched = rc.Sched.Fork()
	raw, _ := json.Marshal(spec)
	specFile := filepath.Join(spec.Dir, "spec.json")
	os.WriteFile(specFile, raw, 0644)
	exe, _ := os.Executable()
	cmd := exec.Command(exe, "-test.run", "^TestSubCmd$", "-test.timeout", "0", "-test.count", "1")
	cmd.Dir = spec.Dir
	cmd.Env = append(os.Environ(), "VERIF_SUBCMD="+specFile, "VERIF_JOB=")
	cmd.SysProcAttr = &syscall.SysProcAttr{Setpgid: true}
	var stderr strings.Builder
	cmd.Stderr = &stderr
	cmd.Stdout = &stderr
	co := &CmdOutcome{}
	var sockA *os.File
	if spec.StdinData != nil && spec.StdinFailAfter >= 0 {
		// a = our end, b = the child's fd 0.  b is given one byte that will never be read, so
		// that closing a later resets the connection: the child reads the k bytes, then ECONNRESET
		fds, err := syscall.Socketpair(syscall.AF_UNIX, syscall.SOCK_STREAM, 0)
		if err != nil {
			co.Crashed = true
			co.Stderr = err.Error()
			return co
		}
		syscall.CloseOnExec(fds[0])
		syscall.CloseOnExec(fds[1])
		sockA = os.NewFile(uintptr(fds[0]), "sock-a")
		sockB := os.NewFile(uintptr(fds[1]), "sock-b")
		k := spec.StdinFailAfter
		if k > len(spec.StdinData) {
			k = len(spec.StdinData)
		}
		sockA.Write(spec.StdinData[:k])
		sockB.Write([]byte{0})
		cmd.Stdin = sockB
		defer sockB.Close()
	}
	var pipeW *os.File
	if spec.StdinData != nil && spec.StdinPipe {
		pr, pw, err := os.Pipe()
		if err != nil {
			co.Crashed = true
			co.Stderr = err.Error()
			return co
		}
		cmd.Stdin = pr
		pipeW = pw
		defer pr.Close()
	}
	if err := cmd.Start(); err != nil {
		co.Crashed = true
		co.Stderr = err.Error()
		return co
	}
	if sockA != nil {
		sockA.Close()
	}
	if pipeW != nil {
		go func(data []byte) {
			pipeW.Write(data)
			pipeW.Close()
		}(spec.StdinData)
	}
	done := make(chan error, 1)
	go func() { done <- cmd.Wait() }()
	wd := 60 * time.Second
	if spec.TimeoutSec > 0 {
		wd = time.Duration(spec.TimeoutSec) * time.Second
	}
	select {
	case <-done:
	case <-time.After(wd):
		syscall.Kill(-cmd.Process.Pid, syscall.SIGKILL)
		<-done
		co.TimedOut = true
	}
	if b, err := os.ReadFile(filepath.Join(spec.Dir, "result.json")); err == nil {
		json.Unmarshal(b, co)
	} else if !co.TimedOut {
		co.Crashed = true
	}
	co.Stderr = tailStr(stderr.String(), 3000)
	rc.Sched.Join(co.Used)
	o := rc.Out
	o.Sig = co.Sig
	o.Policy = co.Policy
	o.Steps += co.Steps
	o.Contended += co.Contended
	o.Tasks += co.Tasks
	o.SimUS += co.SimUS
	for k, v := range co.Probes {
		if o.Probes == nil {
			o.Probes = map[string]int{}
		}
		o.Probes[k] += v
	}
	rc.Log("cmd %s %v sig=%s steps=%d exited=%v code=%d deadlock=%v crashed=%v", spec.Name, relArgs(spec.Args, rc.Dir), co.Sig, co.Steps, co.Exited, co.ExitCode, co.Deadlock, co.Crashed)
	return co
}

func relArgs(args []string, dir string) []string {
	out := make([]string, len(args))
	for i, a := range args {
		out[i] = strings.ReplaceAll(a, dir, "$D")
	}
	return out
}

func tailStr(s string, n int) string {
	if len(s) > n {
		return "…" + s[len(s)-n:]
	}
	return s
}

// outputFiles returns the regular files of dir except the harness' own, by relative name.
func outputFiles(dir string, inputs map[string]bool) map[string][]byte {
	out := map[string][]byte{}
	filepath.Walk(dir, func(path string, info os.FileInfo, err error) error {
		if err != nil || info.IsDir() {
			return nil
		}
		rel, _ := filepath.Rel(dir, path)
		switch rel {
		case "spec.json", "result.json", "stderr":
			return nil
		}
		if inputs[rel] {
			return nil
		}
		b, _ := os.ReadFile(path)
		out[rel] = b
		return nil
	})
	return out
}

func sortedKeys[V any](m map[string]V) []string {
	k := make([]string, 0, len(m))
	for x := range m {
		k = append(k, x)
	}
	sort.Strings(k)
	return k
}

// cmdLiveness applies the generic outcome checks of a command run that must succeed.
func (rc *RunCtx) cmdMustSucceed(co *CmdOutcome, class string, what string) bool {
	switch {
	case co.TimedOut || co.StepCap:
		rc.Inconclusive("%s: %s", what, co.Describe())
		return false
	case co.Crashed:
		rc.Violate(class+"/process-crash", "%s: %s", what, co.Describe())
		return false
	case co.Deadlock:
		rc.Violate(class+"/deadlock", "%s: the command never terminates: %s", what, co.Describe())
		return false
	case co.Failed():
		rc.Violate(class+"/unexpected-exit", "%s: the command failed on a legal input: %s", what, co.Describe())
		return false
	}
	return true
}

// cleanup removes a run directory unless VERIF_KEEP is set (debugging aid).
func cleanup(dir string) {
	if keep := os.Getenv("VERIF_KEEP"); keep != "" {
		os.MkdirAll(keep, 0755)
		os.Rename(dir, filepath.Join(keep, filepath.Base(dir)))
		return
	}
	os.RemoveAll(dir)
}
