package harness

import "testing"

func TestWorker(t *testing.T) { WorkerMain(t) }

func TestSubCmd(t *testing.T) { SubCmdMain(t) }
