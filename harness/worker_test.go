package harness

import "testing"

func TestWorker(t *testing.T) { WorkerMain(t) }
