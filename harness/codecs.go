package harness

import (
	"bytes"
	"io"

	"github.com/dsnet/compress/bzip2"
	"github.com/klauspost/compress/zstd"
	gzip "github.com/klauspost/pgzip"
	"github.com/ulikunitz/xz"
)

// as `gzip file` writes it: the header carries the original file name (and here a comment)
func newGzipWriter(w io.Writer) io.WriteCloser {
	z := gzip.NewWriter(w)
	z.Name = "reads.fastx"
	z.Comment = "made by the harness"
	return z
}
func newBzip2Writer(w io.Writer) (io.WriteCloser, error) {
	return bzip2.NewWriter(w, &bzip2.WriterConfig{Level: 6})
}
func newXzWriter(w io.Writer) (io.WriteCloser, error) { return xz.NewWriter(w) }
func newZstdWriter(w io.Writer) (io.WriteCloser, error) {
	return zstd.NewWriter(w, zstd.WithEncoderLevel(zstd.SpeedDefault), zstd.WithEncoderConcurrency(1))
}

// decoderSilent reports whether the decompression library itself, used directly on the
// faulted image, reaches the end of the data without any error.  A truncation the decoder
// does not notice cannot be reported by any caller: such cases are third-party defects and
// are classified apart.
func decoderSilent(codec int, data []byte) bool {
	var r io.Reader
	var err error
	src := bytesReader(data)
	switch codec {
	case 1, 5:
		r, err = gzip.NewReader(src)
	case 2:
		r, err = bzip2.NewReader(src, &bzip2.ReaderConfig{})
	case 3:
		r, err = xz.NewReader(src)
	case 4:
		var d *zstd.Decoder
		d, err = zstd.NewReader(src, zstd.WithDecoderConcurrency(1))
		if d != nil {
			defer d.Close()
		}
		r = d
	default:
		return false
	}
	if err != nil {
		return false
	}
	// Read only (no WriterTo fast path): what a caller reading through bufio observes
	_, err = io.Copy(io.Discard, struct{ io.Reader }{r})
	return err == nil
}

func bytesReader(b []byte) io.Reader { return bytes.NewReader(b) }
