package harness

import (
	"fmt"
	"sort"
	"strings"

	"git.metabarcoding.org/obitools/obitools4/obitools4/pkg/obiiter"
	"git.metabarcoding.org/obitools/obitools4/obitools4/pkg/obiseq"
	"git.metabarcoding.org/obitools/obitools4/obitools4/pkg/zverif/simrt"
)

// Rec is the harness' own idea of a sequence record: the ground truth the oracles compare
// against.  It never goes through the code under test.
type Rec struct {
	ID    string
	Def   string
	Seq   string         // lower case
	Qual  []byte         // phred scores (no shift); nil: none
	Annot map[string]any // string / int values only
	Taxid int            // 0: none
}

const dna = "acgt"
const iupac = "acgtrymkswbdhvn"

func genSeq(t *simrt.Tape, lo, hi int, alphabet string) string {
	n := t.Range(lo, hi)
	b := make([]byte, n)
	for i := range b {
		b[i] = alphabet[t.Choose(len(alphabet))]
	}
	return string(b)
}

func genQual(t *simrt.Tape, n int) []byte {
	q := make([]byte, n)
	mode := t.Choose(3)
	for i := range q {
		switch mode {
		case 0:
			q[i] = byte(20 + t.Choose(21))
		case 1:
			q[i] = byte(t.Choose(94))
		default:
			// force characters that look like record markers: '@' = 31+33, '+' = 10+33, '>' = 29+33
			q[i] = []byte{31, 10, 29, 0, 40}[t.Choose(5)]
		}
	}
	return q
}

// genRecs draws n records with unique ids r<base+i>.
func genRecs(t *simrt.Tape, n, base int, withQual bool, minLen, maxLen int) []Rec {
	recs := make([]Rec, n)
	for i := range recs {
		r := Rec{ID: fmt.Sprintf("r%04d", base+i)}
		r.Seq = genSeq(t, minLen, maxLen, dna)
		if withQual {
			r.Qual = genQual(t, len(r.Seq))
		}
		switch t.Choose(4) {
		case 1:
			r.Annot = map[string]any{"count": 1 + t.Choose(9)}
		case 2:
			r.Annot = map[string]any{"count": 1 + t.Choose(9), "sample": fmt.Sprintf("s%d", t.Choose(3))}
		case 3:
			r.Annot = map[string]any{"k": fmt.Sprintf("v%d", t.Choose(5))}
			if t.Choose(4) == 3 {
				r.Annot["k"] = "9%" // a percent sign is an ordinary character
			}
		}
		if t.Choose(3) == 1 {
			r.Def = []string{"a definition", "x", "with > and @ and + signs", "C\u00f4te d'Ivoire \u03b2-tubulin \u2192 5'", "98% identity, 100%s %d %v"}[t.Choose(5)]
		}
		recs[i] = r
	}
	return recs
}

func (r Rec) Bio() *obiseq.BioSequence {
	var s *obiseq.BioSequence
	if r.Qual != nil {
		s = obiseq.NewBioSequenceWithQualities(r.ID, []byte(r.Seq), r.Def, append([]byte(nil), r.Qual...))
	} else {
		s = obiseq.NewBioSequence(r.ID, []byte(r.Seq), r.Def)
	}
	keys := make([]string, 0, len(r.Annot))
	for k := range r.Annot {
		keys = append(keys, k)
	}
	sort.Strings(keys)
	for _, k := range keys {
		s.SetAttribute(k, r.Annot[k])
	}
	if r.Taxid > 0 {
		s.SetTaxid(r.Taxid)
	}
	return s
}

// Partition splits recs into batches of the given sizes (sum must be len(recs)).
func makeBatches(recs []Rec, sizes []int, source string) []obiiter.BioSequenceBatch {
	out := make([]obiiter.BioSequenceBatch, len(sizes))
	k := 0
	for i, sz := range sizes {
		sl := obiseq.MakeBioSequenceSlice()
		for j := 0; j < sz; j++ {
			sl = append(sl, recs[k].Bio())
			k++
		}
		out[i] = obiiter.MakeBioSequenceBatch(source, i, sl)
	}
	return out
}

// drawPerm draws a permutation of 0..n-1 by Fisher-Yates; the digit sequence is a Lehmer-like
// code, so enumerating all digit vectors enumerates all n! permutations exactly once.
func drawPerm(t *simrt.Tape, n int) []int {
	p := make([]int, n)
	for i := range p {
		p[i] = i
	}
	for i := n - 1; i > 0; i-- {
		j := i - t.Choose(i+1) // digit 0 = keep in place (identity is the simple choice)
		p[i], p[j] = p[j], p[i]
	}
	return p
}

// allDigitVectors enumerates the digit vectors consumed by drawPerm(n).
func allDigitVectors(n int) [][]int32 {
	out := [][]int32{{}}
	for i := n - 1; i > 0; i-- {
		var next [][]int32
		for _, v := range out {
			for d := 0; d <= i; d++ {
				w := append(append([]int32(nil), v...), int32(d))
				next = append(next, w)
			}
		}
		out = next
	}
	return out
}

// inject builds an iterator whose batches arrive in the given order (indices into batches).
func inject(batches []obiiter.BioSequenceBatch, arrival []int) obiiter.IBioSequence {
	it := obiiter.MakeIBioSequence()
	it.Add(1)
	simrt.Go("injector", func() {
		for _, i := range arrival {
			it.Push(batches[i])
		}
		it.Done()
	})
	simrt.Go("injector-close", func() { it.WaitAndClose() })
	return it
}

func idsOf(recs []Rec) []string {
	out := make([]string, len(recs))
	for i, r := range recs {
		out[i] = r.ID
	}
	return out
}

func permString(p []int) string {
	s := make([]string, len(p))
	for i, v := range p {
		s[i] = fmt.Sprint(v)
	}
	return strings.Join(s, ",")
}

func firstDiff(a, b []string) string {
	for i := 0; i < len(a) && i < len(b); i++ {
		if a[i] != b[i] {
			return fmt.Sprintf("first difference at rank %d: got %q, expected %q", i, a[i], b[i])
		}
	}
	if len(a) != len(b) {
		return fmt.Sprintf("got %d records, expected %d", len(a), len(b))
	}
	return "equal"
}

func sortedCopy(a []string) []string {
	b := append([]string(nil), a...)
	sort.Strings(b)
	return b
}

func equalStrings(a, b []string) bool {
	if len(a) != len(b) {
		return false
	}
	for i := range a {
		if a[i] != b[i] {
			return false
		}
	}
	return true
}

func maxI(a, b int) int {
	if a > b {
		return a
	}
	return b
}
