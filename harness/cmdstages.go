package harness

import (
	"bytes"
	"encoding/csv"
	"fmt"
	"os"
	"path/filepath"
	"sort"
	"strings"

	"git.metabarcoding.org/obitools/obitools4/obitools4/pkg/zverif/simrt"
)

// Command stages of C01 / C17 / C18: the same oracles, applied to the real main of
// obiconvert (and obicsv, obigrep) running in a child process on real files, so that the
// code between main() and the library entry points (option handling, Ropen, format
// dispatch, CLIReadBioSequences / CLIWriteBioSequences, error reporting) is covered too.

var codecExt = []string{"", ".gz", ".bz2", ".xz", ".zst", ".gz"}

func viewOfParsed(p parsedRec, format int) string {
	q := ""
	if p.Qual != "" {
		b := []byte(p.Qual)
		for i := range b {
			b[i] -= 33
		}
		q = fmt.Sprint(b)
	}
	return fmt.Sprintf("id=%s|seq=%s|q=%s", p.ID, p.Seq, q)
}

func viewOfRec(r Rec) string {
	q := ""
	if r.Qual != nil {
		q = fmt.Sprint(r.Qual)
	}
	return fmt.Sprintf("id=%s|seq=%s|q=%s", r.ID, r.Seq, q)
}

// c01Command: obiconvert on a real file (plain or compressed, or redirected to stdin, which is
// the C kseq reader) must deliver the records of the file.
func c01Command(rc *RunCtx, t *simrt.Tape) {
	maxRecs := 25
	if t.Choose(3) == 2 {
		maxRecs = 140 // files of several 4 KiB blocks
	}
	fc := genFile(t, maxRecs, false)
	format := fc.Shape.Format
	solexa := false
	if format == fmFastq && t.Choose(4) == 3 {
		// an old Solexa / Illumina 1.3 file: quality characters are score + 64, read with --solexa
		solexa = true
		fc.Shape.Solexa = true
		for i := range fc.Recs {
			for j := range fc.Recs[i].Qual {
				if fc.Recs[i].Qual[j] > 40 {
					fc.Recs[i].Qual[j] = 40
				}
			}
		}
		renderFile(fc)
	}
	viaStdin := format <= fmFastq && t.Choose(3) == 2
	viaPipe := false
	aligned := false
	codec := t.Choose(6)
	if viaStdin {
		codec = []int{0, 1, 5}[t.Choose(3)] // zlib handles plain and gzip (several members too)
		viaPipe = t.Choose(2) == 1
		// the C reader refills a fixed 4 KiB buffer: put a delimiter of some record on, just
		// before or just after a refill boundary
		if t.Choose(3) != 0 {
			aligned = alignToBoundary(t, fc)
		}
	}
	p := drawParCfg(t, len(fc.Recs))
	dir := filepath.Join(rc.Dir, fmt.Sprintf("t%d", rc.Index))
	os.MkdirAll(dir, 0755)
	defer cleanup(dir)
	ext := map[int]string{fmFasta: ".fasta", fmFastq: ".fastq", fmGenbank: ".gb", fmEmbl: ".dat"}[format]
	in := filepath.Join(dir, "in"+ext+codecExt[codec])
	os.WriteFile(in, compress(codec, fc.Text), 0644)
	out := filepath.Join(dir, "out.fastx")
	args := append(p.cpuArgs(), "-o", out)
	spec := CmdSpec{Name: "obiconvert", Dir: dir, PoolPolicy: p.Pool, YieldDensity: p.Yield, StderrNull: p.ErrNull}
	if p.Chunk > 0 {
		spec.Knobs = map[string]int{"chunk": p.Chunk}
	}
	if solexa {
		args = append(args, "--solexa")
		rc.Probe("solexa_quality_encoding")
	}
	transport := "file"
	var extra []*fileCase
	noOrder := false
	if viaStdin {
		spec.Stdin = in
		transport = "stdin-kseq"
		if viaPipe {
			spec.Stdin = "@inherited"
			spec.StdinData = compress(codec, fc.Text)
			spec.StdinPipe = true
			spec.StdinFailAfter = -1
			transport = "stdin-kseq-pipe"
		}
		if aligned {
			rc.Probe("delimiter_on_4KiB_refill_boundary")
		}
	} else {
		args = append(args, in)
		// one file, or several of the same format: in command-line order, or (--no-order)
		// read concurrently, each record still being the record of its own file
		if t.Choose(3) == 2 {
			nx := 1 + t.Choose(2)
			for x := 1; x <= nx; x++ {
				sh := fc.Shape
				fx := genFile(simrt.PrefixTape([]int32{int32(format)}, uint64(t.Choose(1<<30))), maxRecs, false)
				for i := range fx.Recs {
					fx.Recs[i].ID = fmt.Sprintf("f%d%s", x, fx.Recs[i].ID)
					if solexa {
						for j := range fx.Recs[i].Qual {
							if fx.Recs[i].Qual[j] > 40 {
								fx.Recs[i].Qual[j] = 40
							}
						}
					}
				}
				fx.Shape.Solexa = solexa
				renderFile(fx)
				fn := filepath.Join(dir, fmt.Sprintf("more%d%s%s", x, ext, codecExt[codec]))
				os.WriteFile(fn, compress(codec, fx.Text), 0644)
				args = append(args, fn)
				extra = append(extra, fx)
				_ = sh
			}
			transport = fmt.Sprintf("%d-files", 1+nx)
			if codec <= 1 && t.Choose(3) == 2 {
				// the files are given as a directory (relative to the working directory of the
				// command) holding a sub-directory: every file in it is read once, whatever
				// the order the directory is listed in
				os.MkdirAll(filepath.Join(dir, "data", "sub"), 0755)
				moved := []string{}
				for i, a := range args {
					if strings.HasPrefix(a, dir+string(filepath.Separator)) && (a == in || strings.Contains(filepath.Base(a), "more")) {
						dst := filepath.Join(dir, "data", filepath.Base(a))
						if i%2 == 1 {
							dst = filepath.Join(dir, "data", "sub", filepath.Base(a))
						}
						os.Rename(a, dst)
						moved = append(moved, a)
					}
				}
				kept := args[:0:0]
				for _, a := range args {
					isMoved := false
					for _, m := range moved {
						if a == m {
							isMoved = true
						}
					}
					if !isMoved {
						kept = append(kept, a)
					}
				}
				args = append(kept, "data")
				noOrder = true
				transport += "-as-directory"
			} else if t.Choose(2) == 1 {
				args = append(args, "--no-order")
				noOrder = true
				transport += "-no-order"
			}
		}
	}
	spec.Args = args
	fm := fmNames[format]
	rc.Out.Sample = map[string]any{"stage": "command", "format": fm, "codec": codecNames[codec], "transport": transport, "records": len(fc.Recs), "config": p.String()}
	co := rc.RunCmd(spec)
	rc.Out.Nontrivial = true
	rc.Out.Key = fmt.Sprintf("cmd/%s/%s/%s/%d/%s", fm, codecNames[codec], transport, len(fc.Text), co.Sig)
	rc.Probe("command_stage_" + transport)
	class := fmt.Sprintf("C01/%s/command-%s", fm, transport)
	if !rc.cmdMustSucceed(co, class, fmt.Sprintf("obiconvert on a well-formed %s %s file via %s (%s)", codecNames[codec], fm, transport, p)) {
		return
	}
	raw, _ := os.ReadFile(out)
	got, err := parseObiFastx(raw)
	if err != nil {
		rc.Violate(class+"/unparsable-output", "%v", err)
		return
	}
	gv, ev := []string{}, []string{}
	for _, g := range got {
		if format <= fmFastq {
			// identifier, nucleotides, qualities, definition and annotations: the whole record,
			// whatever the transport (the Go parsers and the C reader of stdin must agree)
			gv = append(gv, irecOfParsed(g).canon())
		} else {
			gv = append(gv, viewOfParsed(g, format))
		}
	}
	for _, f := range append([]*fileCase{fc}, extra...) {
		for _, r := range f.Recs {
			if format <= fmFastq {
				e := r
				if !f.Shape.hasHead() {
					e.Annot = nil
				}
				ev = append(ev, irecOf(e).canon())
			} else {
				ev = append(ev, viewOfRec(r))
			}
		}
	}
	if noOrder {
		// no order among the files; the records of one file still come in file order
		start := 0
		for fi, f := range append([]*fileCase{fc}, extra...) {
			want := ev[start : start+len(f.Recs)]
			start += len(f.Recs)
			in := map[string]bool{}
			for _, w := range want {
				in[w] = true
			}
			var sub []string
			for _, g := range gv {
				if in[g] {
					sub = append(sub, g)
				}
			}
			if !equalStrings(sub, want) {
				rc.Violate(class+"/records-differ", "obiconvert --no-order (%s, %s): the records of input file %d are not delivered in file order: %s", codecNames[codec], p, fi+1, firstDiff(sub, want))
				return
			}
		}
		sort.Strings(gv)
		sort.Strings(ev)
	}
	if !equalStrings(gv, ev) {
		rc.Violate(class+"/records-differ", "obiconvert (%s, %s, %s): %s\nfile: %q", codecNames[codec], transport, p, firstDiff(gv, ev), clip(string(fc.Text), 500))
	}
}

// alignToBoundary lengthens the definition of the first record until a delimiter of a later
// record (first byte of its header, end of its identifier, end of its header line, end of its
// first sequence line) sits at offset 4095+d (d = -1, 0, 1) modulo 4096 of the text.
func alignToBoundary(t *simrt.Tape, fc *fileCase) bool {
	if len(fc.Recs) < 3 || fc.Shape.Format > fmFastq {
		return false
	}
	j := 1 + t.Choose(len(fc.Recs)-1)
	which := t.Choose(4)
	d := t.Choose(3) - 1
	marker := ">"
	if fc.Shape.Format == fmFastq {
		marker = "@"
	}
	key := []byte("\n" + marker + fc.Recs[j].ID)
	for iter := 0; iter < 6; iter++ {
		h := bytes.Index(fc.Text, key)
		if h < 0 {
			return false
		}
		h++
		pos := h
		nl := h + bytes.IndexByte(fc.Text[h:], '\n')
		switch which {
		case 1:
			pos = h + 1 + len(fc.Recs[j].ID)
		case 2:
			pos = nl
		case 3:
			e := bytes.IndexByte(fc.Text[nl+1:], '\n')
			if e < 0 {
				return false
			}
			pos = nl + 1 + e
		}
		want := (4095 + d) % 4096
		s := ((want-pos)%4096 + 4096) % 4096
		if s == 0 && pos >= 4095 {
			return true
		}
		if s == 0 {
			s = 4096
		}
		fc.Recs[0].Def += strings.Repeat("x", s)
		renderFile(fc)
	}
	return false
}

// c17Command: obiconvert on a truncated or bit-flipped compressed file must exit non-zero
// (or, for a flip only, output every record).
func c17Command(rc *RunCtx, t *simrt.Tape) {
	big := t.Choose(4) == 3
	n := 30
	if big {
		n = 400
	}
	fc := genFile(simrt.PrefixTape([]int32{int32(t.Choose(2))}, uint64(t.Choose(1<<30))), n, big)
	format := fc.Shape.Format
	codec := 1 + t.Choose(5)
	viaStdin := t.Choose(3) == 2
	// one case in twelve: a gzip file whose magic number is damaged (or that is cut inside it),
	// lying in a directory given as input next to intact files
	forceDir := t.Choose(12) == 11
	if forceDir {
		codec, viaStdin = 1, false
	}
	viaPipe := false
	if viaStdin {
		// the C reader of standard input only knows gzip (bzip2, xz and zstd are not readable
		// there even when intact, so what it makes of a damaged one is not this property's
		// matter); through a pipe (not seekable) a damaged gzip image must still be refused,
		// whatever zlib makes of its first bytes
		viaPipe = t.Choose(2) == 1
		codec = []int{1, 5}[t.Choose(2)]
	}
	// the same records as a CSV sequence file (what obicsv writes is an input format too)
	asCSV := !viaStdin && !forceDir && format == fmFasta && t.Choose(4) == 3
	hugeCSV := asCSV && t.Choose(3) == 2
	if hugeCSV {
		// more than 1 MiB of text: the format guesser only sees the first MiB, what follows is
		// read by the CSV reader itself
		pool := fc.Recs
		fc.Recs = make([]Rec, 0, 15000)
		for i := 0; i < 15000; i++ {
			r := pool[i%len(pool)]
			fc.Recs = append(fc.Recs, Rec{ID: fmt.Sprintf("b%05d", i), Seq: (r.Seq + "acgtacgtacgtacgtacgtacgtacgtacgtacgtacgtacgtacgtacgtacgtacgtacgtacgtacgt")[:70]})
		}
	}
	if asCSV {
		var cb bytes.Buffer
		cw := csv.NewWriter(&cb)
		cw.Write([]string{"id", "sequence"})
		for _, r := range fc.Recs {
			cw.Write([]string{r.ID, r.Seq})
		}
		cw.Flush()
		fc.Text = cb.Bytes()
	}
	image := compress(codec, fc.Text)
	kind := t.Choose(2)
	N := len(image)
	var k int
	switch t.Choose(4) {
	case 0:
		k = N - 1 - t.Choose(minI(16, N-1))
	case 1:
		k = 1 + t.Choose(minI(24, N-1))
	default:
		k = 1 + t.Choose(N-1)
	}
	if hugeCSV {
		// damage in the last tenth of the image: beyond the first MiB of text
		k = N - 1 - t.Choose(N/10)
	}
	bit := t.Choose(8)
	data := append([]byte(nil), image...)
	if forceDir {
		if t.Choose(2) == 1 {
			kind, k = fkFlip, t.Choose(2)
		} else {
			kind, k = fkTruncate, 1
		}
	}
	if viaPipe && t.Choose(4) == 3 {
		// a damaged magic number: for zlib the stream is then not gzip at all and is handed
		// over as it is (binary text without any record)
		kind, k = fkFlip, t.Choose(2)
	} else if viaStdin && codec == 1 && N > 24 && t.Choose(3) == 2 {
		// the whole 8-byte trailer (CRC and length) missing: the cut a decoder is most likely
		// to take for a clean end of data
		kind, k = fkTruncate, N-8
	}
	if kind == fkTruncate {
		if codec == 5 && memberBoundary(fc.Text, k) {
			rc.Probe("cut_between_gzip_members_is_a_valid_file")
			rc.Out.Key = fmt.Sprintf("cmd/member-boundary/%d/%d", N, k)
			return
		}
		data = data[:k]
	} else {
		if k >= N {
			k = N - 1
		}
		data[k] ^= 1 << bit
	}
	p := drawParCfg(t, len(fc.Recs))
	dir := filepath.Join(rc.Dir, fmt.Sprintf("f%d", rc.Index))
	os.MkdirAll(dir, 0755)
	defer cleanup(dir)
	ext := map[int]string{fmFasta: ".fasta", fmFastq: ".fastq"}[format]
	if asCSV {
		ext = ".csv"
	}
	in := filepath.Join(dir, "in"+ext+codecExt[codec])
	os.WriteFile(in, data, 0644)
	out := filepath.Join(dir, "out.fastx")
	// every command reads its input through the same entry point; three of them are run
	cmdName := []string{"obiconvert", "obiconvert", "obigrep", "obiannotate"}[t.Choose(4)]
	spec := CmdSpec{Name: cmdName, Dir: dir, PoolPolicy: p.Pool, YieldDensity: p.Yield, StderrNull: p.ErrNull}
	args := append(p.cpuArgs(), "-o", out)
	if cmdName == "obiannotate" {
		args = append(args, "--length")
	}
	if hugeCSV {
		spec.MaxSteps, spec.TimeoutSec = 20000000, 600 // 15 000 records through every stage
	}
	transport := "file"
	if viaStdin {
		spec.Stdin = in
		transport = "stdin-kseq"
		if viaPipe {
			spec.Stdin = "@inherited"
			spec.StdinData = data
			spec.StdinPipe = true
			spec.StdinFailAfter = -1
			transport = "stdin-kseq-pipe"
		}
		if t.Choose(3) == 2 {
			// explicit input format on standard input
			args = append(args, map[int]string{fmFasta: "--fasta", fmFastq: "--fastq"}[format])
			transport += "-explicit-format"
		}
	} else {
		if asCSV {
			transport = "file-csv"
		} else if t.Choose(3) == 2 {
			// explicit input format: no format sniffer in front of the reader
			args = append(args, map[int]string{fmFasta: "--fasta", fmFastq: "--fastq"}[format])
			transport = "file-explicit-format"
		}
		// the damaged file alone, or among intact files (before, after, both; --no-order):
		// one unreadable input must fail the command however many others are fine
		among := t.Choose(5)
		if forceDir {
			among = 2
		}
		switch among {
		case 2, 3, 4:
			mk := func(name string, base int) string {
				recs := genRecs(t, 1+t.Choose(6), base, format == fmFastq, 10, 60)
				f := filepath.Join(dir, name+ext)
				if format == fmFastq {
					os.WriteFile(f, fastqText(recs, true), 0644)
				} else {
					os.WriteFile(f, fastaText(recs, true), 0644)
				}
				return f
			}
			files := []string{in}
			switch t.Choose(3) {
			case 0:
				files = []string{mk("before", 5000), in}
			case 1:
				files = []string{in, mk("after", 6000)}
			default:
				files = []string{mk("before", 5000), in, mk("after", 6000)}
			}
			if t.Choose(3) == 2 {
				args = append(args, "--no-order")
			}
			if (codec == 1 || codec == 5) && !asCSV && (forceDir || t.Choose(3) == 2) {
				// the files are given as a directory: whatever is in it and bears the
				// extension of a sequence file is an input, damaged or not
				os.MkdirAll(filepath.Join(dir, "data"), 0755)
				for _, f := range files {
					os.Rename(f, filepath.Join(dir, "data", filepath.Base(f)))
				}
				args = append(args, "data")
				transport += fmt.Sprintf("-among-%d-files-as-directory", len(files))
			} else {
				args = append(args, files...)
				transport += fmt.Sprintf("-among-%d-files", len(files))
			}
		default:
			args = append(args, in)
		}
	}
	spec.Args = args
	reg := region(k, N)
	codecName := codecNames[codec]
	rc.Out.Sample = map[string]any{"stage": "command", "command": cmdName, "format": fmNames[format], "codec": codecName, "transport": transport, "fault": fkNames[kind], "offset": k, "bit": bit, "image_bytes": N, "config": p.String()}
	co := rc.RunCmd(spec)
	rc.Fault(fmt.Sprintf("command_%s_%s_%s_%s", transport, fkNames[kind], codecName, reg))
	rc.Probe("command_stage_" + cmdName)
	rc.Out.Nontrivial = true
	rc.Out.Key = fmt.Sprintf("cmd/%s/%s/%s/%d/%d/%d", transport, codecName, fkNames[kind], N, k, bit)
	base := fmt.Sprintf("C17/%s/%s", codecName, fkNames[kind])
	stage := "/command-" + transport
	switch {
	case co.TimedOut || co.StepCap:
		rc.Inconclusive("%s", co.Describe())
		return
	case co.Deadlock:
		rc.Violate(base+"/hang/"+reg+stage, "%s hangs on the faulted input: %s", cmdName, co.Describe())
		return
	case co.Crashed || co.Failed():
		rc.Probe("command_reported")
		return
	}
	raw, _ := os.ReadFile(out)
	all, _ := parseObiFastx(raw)
	mine := map[string]bool{}
	for _, r := range fc.Recs {
		mine[r.ID] = true
	}
	got := all[:0:0]
	for _, g := range all {
		if mine[g.ID] || !strings.HasPrefix(transport, "file") || !strings.Contains(transport, "-among-") {
			got = append(got, g)
		}
	}
	complete := len(got) == len(fc.Recs)
	if complete {
		// several input files (and --no-order) only promise the records, not their rank
		gv, ev := make([]string, len(got)), make([]string, len(got))
		for i := range got {
			gv[i], ev[i] = viewOfParsed(got[i], format), viewOfRec(fc.Recs[i])
		}
		if strings.Contains(transport, "-among-") {
			sort.Strings(gv)
			sort.Strings(ev)
		}
		complete = equalStrings(gv, ev)
	}
	if kind == fkFlip && complete {
		rc.Probe("flip_immaterial")
		return
	}
	if viaStdin && kind == fkFlip && k < 3 && len(all) > 0 {
		// the magic number is gone: the C reader sees binary text, and binary text that happens
		// to contain "@x\nr\n+\n;" is a record for it.  Only the run that ends successfully
		// with nothing at all is a violation here.
		rc.Probe("damaged_magic_read_as_text")
		return
	}
	dec := "decoder-reported"
	if !viaStdin && decoderSilent(codec, data) {
		dec = "decoder-silent"
	}
	if viaStdin && codec == 5 && kind == fkFlip && (memberBoundary(fc.Text, k) || memberBoundary(fc.Text, k-1)) {
		// a damaged magic number of a member after the first: what follows a complete member
		// and does not begin with 1f 8b is trailing garbage for zlib
		dec = "decoder-silent-zlib"
	}
	if viaStdin && codec == 5 && kind == fkTruncate && memberBoundary(fc.Text, k-1) {
		// one byte of the next member's header after a complete member: zlib (the decoder of
		// standard input) cannot recognise a header in a single byte and, as documented for
		// gzread, ignores it as trailing garbage
		dec = "decoder-silent-zlib"
	}
	outcome := "ok-partial"
	if complete {
		outcome = "ok-complete"
	}
	rc.Violate(fmt.Sprintf("%s/%s/%s/%s%s", base, dec, outcome, reg, stage),
		cmdName+" exited with status 0 on a %s image with a %s at offset %d of %d (bit %d), via %s, after writing %d of %d records (%s); library probe: %s",
		codecName, fkNames[kind], k, N, bit, transport, len(got), len(fc.Recs), p, dec)
}

// c17StdinError: a real read(2) error on standard input (a directory: EISDIR at once; a reset
// socket: k bytes then ECONNRESET) must be fatal, on plain and on gzip data alike.
func c17StdinError(rc *RunCtx, t *simrt.Tape) {
	fc := genFile(simrt.PrefixTape([]int32{int32(t.Choose(2))}, uint64(t.Choose(1<<30))), 40, false)
	gz := t.Choose(2)
	image := compress(gz, fc.Text)
	p := drawParCfg(t, len(fc.Recs))
	dir := filepath.Join(rc.Dir, fmt.Sprintf("e%d", rc.Index))
	os.MkdirAll(dir, 0755)
	defer cleanup(dir)
	out := filepath.Join(dir, "out.fastx")
	spec := CmdSpec{Name: "obiconvert", Dir: dir, PoolPolicy: p.Pool, YieldDensity: p.Yield, StderrNull: p.ErrNull,
		Args: append(p.cpuArgs(), "-o", out)}
	how := "directory"
	k := 0
	if t.Choose(3) == 0 {
		sub := filepath.Join(dir, "adir")
		os.MkdirAll(sub, 0755)
		spec.Stdin = sub
	} else {
		how = "reset-socket"
		k = t.Choose(minI(len(image), 60000) + 1)
		spec.Stdin = "@inherited"
		spec.StdinData = image
		spec.StdinFailAfter = k
	}
	codecName := codecNames[gz]
	rc.Out.Sample = map[string]any{"stage": "command", "transport": "stdin-kseq", "fault": "read(2) error", "how": how, "after_bytes": k, "codec": codecName, "image_bytes": len(image), "config": p.String()}
	co := rc.RunCmd(spec)
	rc.Fault(fmt.Sprintf("command_stdin_readerror_%s_%s", how, codecName))
	rc.Out.Nontrivial = true
	rc.Out.Key = fmt.Sprintf("cmd/stdin-error/%s/%s/%d/%d", how, codecName, len(image), k)
	base := fmt.Sprintf("C17/%s/readerror", codecName)
	switch {
	case co.TimedOut || co.StepCap:
		rc.Inconclusive("%s", co.Describe())
	case co.Deadlock:
		rc.Violate(base+"/hang/command-stdin-kseq", "obiconvert hangs after a read error on its standard input: %s", co.Describe())
	case co.Crashed || co.Failed():
		rc.Probe("command_reported")
	default:
		raw, _ := os.ReadFile(out)
		got, _ := parseObiFastx(raw)
		rc.Violate(fmt.Sprintf("%s/decoder-reported/ok-partial/%s/command-stdin-kseq", base, how),
			"obiconvert exited with status 0 although reading its standard input failed (%s, after %d of %d bytes, %s data); it wrote %d of %d records (%s)",
			how, k, len(image), codecName, len(got), len(fc.Recs), p)
	}
}

// c18FileLimit: the disk fills up (or a quota is reached) after k bytes of any output file -
// RLIMIT_FSIZE on the command, a real EFBIG from write(2) at any offset of a real file.  A
// control run without limit tells what the outputs are; under the limit the command either
// fails or has written exactly those outputs.
func c18FileLimit(rc *RunCtx, t *simrt.Tape) {
	name := []string{"obiconvert", "obiconvert", "obigrep", "obidistribute", "obicsv", "obiannotate"}[t.Choose(6)]
	n := 5 + t.Choose(60)
	fastq := name != "obidistribute" && t.Choose(2) == 1
	recs := annotatedRecs(t, n, fastq)
	p := drawParCfg(t, n)
	var opts []string
	format := "fastx"
	switch name {
	case "obiconvert":
		switch t.Choose(4) {
		case 1:
			opts, format = []string{"--json-output"}, "json"
		case 2:
			opts, format = []string{"--fasta-output"}, "fasta"
		case 3:
			opts, format = []string{"-Z"}, "gzip"
		}
	case "obigrep":
		opts = []string{"-l", "40", "--save-discarded", "discarded.fastx"}
	case "obidistribute":
		opts = []string{"-p", "part_%s.fasta", "-c", "sample"}
		format = "parts"
	case "obicsv":
		opts, format = []string{"--ids", "--sequence", "-k", "sample"}, "csv"
	case "obiannotate":
		opts = []string{"--length"}
	}
	toStdout := name == "obicsv" || (name != "obidistribute" && t.Choose(3) == 2)
	run := func(tag string, limit int) (*CmdOutcome, map[string][]byte, string) {
		dir := filepath.Join(rc.Dir, fmt.Sprintf("q%d-%s", rc.Index, tag))
		os.MkdirAll(dir, 0755)
		in := filepath.Join(dir, "in.fastx")
		if fastq {
			os.WriteFile(in, fastqText(recs, true), 0644)
		} else {
			os.WriteFile(in, fastaText(recs, true), 0644)
		}
		args := append(p.cpuArgs(), opts...)
		if !toStdout && name != "obidistribute" {
			args = append(args, "-o", "out.fastx")
		}
		args = append(args, in)
		spec := CmdSpec{Name: name, Dir: dir, Args: args, PoolPolicy: p.Pool, YieldDensity: p.Yield, StderrNull: true, FileSizeLimit: limit}
		co := rc.RunCmd(spec)
		return co, outputFiles(dir, map[string]bool{"in.fastx": true}), dir
	}
	ctl, want, cdir := run("control", 0)
	defer cleanup(cdir)
	if !rc.cmdMustSucceed(ctl, "C18/file-limit/control/"+name, name+" without any limit") {
		return
	}
	largest := 0
	for _, b := range want {
		if len(b) > largest {
			largest = len(b)
		}
	}
	var k int
	switch t.Choose(5) {
	case 0:
		k = 1
	case 1:
		k = 4096 + t.Choose(3) - 1
	case 2:
		k = largest - 1 - t.Choose(minI(64, maxI(largest-1, 1)))
	default:
		k = 1 + t.Choose(maxI(largest, 2))
	}
	if k < 1 {
		k = 1
	}
	co, got, dir := run("limited", k)
	defer cleanup(dir)
	where := "-o"
	if toStdout {
		where = "stdout"
	}
	if name == "obidistribute" {
		where = "parts"
	}
	rc.Out.Sample = map[string]any{"stage": "command", "command": name, "options": opts, "records": n, "file_size_limit": k, "largest_output": largest, "output_on": where, "config": p.String()}
	rc.Out.Nontrivial = true
	rc.Out.Key = fmt.Sprintf("cmd/file-limit/%s/%s/%s/%d/%d/%s", name, format, where, largest, k, co.Sig)
	base := fmt.Sprintf("C18/command/%s/%s/%s/file-size-limit", name, format, where)
	if largest > k {
		rc.Fault(fmt.Sprintf("command_file_size_limit_%s_%s_%s", name, format, where))
	} else {
		rc.Probe("limit_above_every_output")
	}
	switch {
	case co.TimedOut || co.StepCap:
		rc.Inconclusive("%s", co.Describe())
	case co.Deadlock:
		rc.Violate(base+"/hang", "%s hangs when a write exceeds the file size limit: %s", name, co.Describe())
	case co.Crashed || co.Failed():
		if largest <= k {
			rc.Violate(base+"/failed-below-the-limit", "%s failed although no output exceeds the limit of %d bytes (largest %d): %s", name, k, largest, co.Describe())
			return
		}
		rc.Probe("command_reported")
	default:
		if d := diffOutputs(got, want); d != "" {
			rc.Violate(base+"/silent-loss", "%s %v exited with status 0 under a file size limit of %d bytes, but its outputs are not those of the run without limit (largest output %d bytes):\n%s",
				name, opts, k, largest, d)
		}
	}
}

// c18Command: a command whose output goes to /dev/full must exit non-zero.
func c18Command(rc *RunCtx, t *simrt.Tape) {
	name := []string{"obiconvert", "obiconvert", "obicsv", "obigrep", "obiannotate", "obicomplement", "obiuniq"}[t.Choose(7)]
	n := 1 + t.Choose(30)
	big := t.Choose(3) == 2
	if big {
		n = 200 + t.Choose(400)
	}
	fastq := t.Choose(2) == 1
	recs := annotatedRecs(t, n, fastq)
	dir := filepath.Join(rc.Dir, fmt.Sprintf("w%d", rc.Index))
	os.MkdirAll(dir, 0755)
	defer cleanup(dir)
	in := filepath.Join(dir, "in.fastx")
	if fastq {
		os.WriteFile(in, fastqText(recs, true), 0644)
	} else {
		os.WriteFile(in, fastaText(recs, true), 0644)
	}
	p := drawParCfg(t, n)
	args := p.cpuArgs()
	where := "stdout"
	spec := CmdSpec{Name: name, Dir: dir, PoolPolicy: p.Pool, YieldDensity: p.Yield, StderrNull: p.ErrNull}
	format := "fastx"
	switch name {
	case "obiconvert":
		switch t.Choose(4) {
		case 1:
			args = append(args, "--json-output")
			format = "json"
		case 2:
			args = append(args, "--fasta-output")
			format = "fasta"
		case 3:
			args = append(args, "-Z")
			format = "gzip"
		}
	case "obicsv":
		args = append(args, "--ids", "--sequence")
		format = "csv"
	case "obigrep":
		args = append(args, "-l", "40")
	case "obiannotate":
		args = append(args, "--length")
	}
	target := t.Choose(3)
	if name == "obicsv" {
		target = 0 // obicsv always writes on its standard output
	}
	switch target {
	case 0:
		spec.Stdout = "/dev/full"
	case 1:
		args = append(args, "-o", "/dev/full")
		where = "-o"
	default:
		if name == "obigrep" {
			args = append(args, "--save-discarded", "/dev/full", "-o", filepath.Join(dir, "kept.fastx"))
			where = "--save-discarded"
		} else {
			spec.Stdout = "/dev/full"
		}
	}
	args = append(args, in)
	spec.Args = args
	rc.Out.Sample = map[string]any{"stage": "command", "command": name, "options": relArgs(args, dir), "records": n, "full_device_on": where, "config": p.String()}
	co := rc.RunCmd(spec)
	rc.Fault(fmt.Sprintf("command_devfull_%s_%s_%s", name, format, where))
	rc.Out.Nontrivial = true
	rc.Out.Key = fmt.Sprintf("cmd/%s/%s/%s/%d/%s", name, format, where, n, co.Sig)
	base := fmt.Sprintf("C18/command/%s/%s/%s", name, format, where)
	switch {
	case co.TimedOut || co.StepCap:
		rc.Inconclusive("%s", co.Describe())
	case co.Deadlock:
		rc.Violate(base+"/hang", "%s hangs when its output device is full: %s", name, co.Describe())
	case co.Crashed || co.Failed():
		rc.Probe("command_reported")
	default:
		// a run that had nothing to write may legitimately succeed
		if name == "obigrep" && where == "--save-discarded" {
			short := 0
			for _, r := range recs {
				if len(r.Seq) < 40 {
					short++
				}
			}
			if short == 0 {
				rc.Probe("nothing_to_write")
				return
			}
		}
		if name == "obigrep" && where != "--save-discarded" {
			long := 0
			for _, r := range recs {
				if len(r.Seq) >= 40 {
					long++
				}
			}
			if long == 0 {
				rc.Probe("nothing_to_write")
				return
			}
		}
		rc.Violate(base+"/silent-loss", "%s %s exited with status 0 although every write on its output (%s -> /dev/full) fails; messages: %v",
			name, strings.Join(relArgs(args, dir), " "), where, co.LogLines)
	}
}
