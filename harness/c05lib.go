package harness

import (
	"fmt"
	"sort"
	"strings"

	"git.metabarcoding.org/obitools/obitools4/obitools4/pkg/obitools/obiannotate"

	"git.metabarcoding.org/obitools/obitools4/obitools4/pkg/obiapat"
	"git.metabarcoding.org/obitools/obitools4/obitools4/pkg/obiiter"
	"git.metabarcoding.org/obitools/obitools4/obitools4/pkg/obiseq"
	"git.metabarcoding.org/obitools/obitools4/obitools4/pkg/zverif/simrt"
)

// ---------------------------------------------------------------------------
// C05, library stage: the predicates and workers the record-wise commands build from their
// options, applied by several workers at once to many small batches.  A command run on a
// 25-record file seldom has two workers inside the same predicate at the same moment; here
// every worker is busy from the first step.  The oracle is the same predicate (a second
// instance) applied sequentially to private copies of the records.
// ---------------------------------------------------------------------------

type predAtom struct {
	text string
	make func() obiseq.SequencePredicate
}

func drawPredAtom(t *simrt.Tape) predAtom {
	switch t.Choose(10) {
	case 0, 1, 2:
		pat := []string{"acgtr", "ggnnc", "ttyaa", "catg", "wwsss", "acgdh", "tgcabv"}[t.Choose(7)]
		e := t.Choose(2)
		both := t.Choose(4) != 0
		indel := e > 0 && t.Choose(2) == 1
		return predAtom{fmt.Sprintf("approx(%s,e=%d,both=%v,indel=%v)", pat, e, both, indel),
			func() obiseq.SequencePredicate { return obiapat.IsPatternMatchSequence(pat, e, both, indel) }}
	case 3:
		re := []string{"^a", "gg", "acg.*t", "t$", "[ct]a[ag]"}[t.Choose(5)]
		return predAtom{"seq~" + re, func() obiseq.SequencePredicate { return obiseq.IsSequenceMatch(re) }}
	case 4:
		re := []string{"some", "text$", "^other"}[t.Choose(3)]
		return predAtom{"def~" + re, func() obiseq.SequencePredicate { return obiseq.IsDefinitionMatch(re) }}
	case 5:
		re := []string{"1$", "r00[0-4]", "7"}[t.Choose(3)]
		return predAtom{"id~" + re, func() obiseq.SequencePredicate { return obiseq.IsIdMatch(re) }}
	case 6:
		k := []string{"tag", "sample", "absent"}[t.Choose(3)]
		return predAtom{"has(" + k + ")", func() obiseq.SequencePredicate { return obiseq.HasAttribute(k) }}
	case 7:
		re := []string{"s0", "s[12]", "^s"}[t.Choose(3)]
		return predAtom{"sample~" + re, func() obiseq.SequencePredicate { return obiseq.IsAttributeMatch("sample", re) }}
	case 8:
		n := 20 + t.Choose(60)
		if t.Choose(2) == 1 {
			return predAtom{fmt.Sprintf("len>=%d", n), func() obiseq.SequencePredicate { return obiseq.IsLongerOrEqualTo(n) }}
		}
		return predAtom{fmt.Sprintf("len<=%d", n), func() obiseq.SequencePredicate { return obiseq.IsShorterOrEqualTo(n) }}
	default:
		ex := []string{"annotations.count > 2", "sequence.Len() < 50", `annotations.sample == "s1"`, "annotations.count <= 3 && sequence.Len() >= 30"}[t.Choose(4)]
		return predAtom{"expr(" + ex + ")", func() obiseq.SequencePredicate { return obiseq.ExpressionPredicat(ex) }}
	}
}

func drawPredicate(t *simrt.Tape) predAtom {
	a := drawPredAtom(t)
	switch t.Choose(5) {
	case 1:
		b := drawPredAtom(t)
		return predAtom{a.text + " AND " + b.text, func() obiseq.SequencePredicate { return a.make().And(b.make()) }}
	case 2:
		b := drawPredAtom(t)
		return predAtom{a.text + " OR " + b.text, func() obiseq.SequencePredicate { return a.make().Or(b.make()) }}
	case 3:
		return predAtom{"NOT " + a.text, func() obiseq.SequencePredicate { return a.make().Not() }}
	}
	return a
}

// c05LibraryWorker: an annotating worker the commands build from their options, applied by
// MakeIWorker with several workers; every record must come out as the same worker (a second
// instance) leaves a private copy of it when applied sequentially.
func c05LibraryWorker(rc *RunCtx, t *simrt.Tape) {
	n := 20 + t.Choose(80)
	recs := annotatedRecs(t, n, false)
	var sizes []int
	for rem := n; rem > 0; {
		sz := 1 + t.Choose(minI(4, rem))
		sizes = append(sizes, sz)
		rem -= sz
	}
	arrival := drawPerm(t, len(sizes))
	pat := []string{"acgtr", "ggnnc", "ttyaacg", "catgwa", "wwsssn", "acgdhtt"}[t.Choose(6)]
	e := 1 + t.Choose(2)
	both := t.Choose(3) != 0
	indel := t.Choose(2) == 1
	text := fmt.Sprintf("MatchPatternWorker(%s,e=%d,both=%v,indel=%v)", pat, e, both, indel)
	mk := func() obiseq.SeqWorker { return obiannotate.MatchPatternWorker(pat, "", e, both, indel) }
	nw := 2 + t.Choose(5)
	rc.Out.Sample = map[string]any{"stage": "library", "worker": text, "records": n, "batches": len(sizes), "workers": nw}
	view := func(s *obiseq.BioSequence) string {
		a := map[string]string{}
		for k, v := range s.Annotations() {
			a[k] = fmt.Sprint(v)
		}
		return irec{ID: s.Id(), Seq: s.String(), Annot: a}.canon()
	}
	var want []string
	{
		w := mk()
		for _, b := range makeBatches(recs, sizes, "sim") {
			for _, s := range b.Slice() {
				out, err := w(s)
				if err != nil {
					continue
				}
				for _, o := range out {
					want = append(want, view(o))
				}
			}
		}
	}
	var got []string
	batches := makeBatches(recs, sizes, "sim")
	res := rc.Sim(SimOpts{YieldDensity: 1 + rc.Sched.Choose(3), PoolPolicy: t.Choose(4)}, func() {
		it := inject(batches, arrival)
		out := it.MakeIWorker(mk(), false, nw)
		type ob struct {
			order int
			views []string
		}
		var all []ob
		for out.Next() {
			b := out.Get()
			o := ob{order: b.Order()}
			for _, s := range b.Slice() {
				o.views = append(o.views, view(s))
			}
			all = append(all, o)
		}
		sort.Slice(all, func(i, j int) bool { return all[i].order < all[j].order })
		for _, o := range all {
			got = append(got, o.views...)
		}
		obiiter.WaitForLastPipe()
	})
	rc.Out.Nontrivial = res.Contended > 0
	rc.Out.Key = fmt.Sprintf("libw/%s/%d/%d/%s", text, n, nw, res.Sig)
	rc.Probe("library_worker_stage")
	class := "C05/library[worker:MatchPattern]"
	if !rc.Liveness(res, class) {
		return
	}
	if res.Exited {
		rc.Violate(class+"/unexpected-exit", "MakeIWorker(%s) with %d workers ended the process: %s", text, nw, describeExit(res))
		return
	}
	if !equalStrings(got, want) {
		rc.Violate(class+"/worker-depends-on-parallelism", "MakeIWorker(%s) with %d workers over %d batches does not leave the records as the same worker applied sequentially does: %s",
			text, nw, len(sizes), firstDiff(got, want))
	}
}

func c05Library(rc *RunCtx, t *simrt.Tape) {
	if t.Choose(4) == 3 {
		c05LibraryWorker(rc, t)
		return
	}
	n := 20 + t.Choose(100)
	recs := annotatedRecs(t, n, t.Choose(2) == 1)
	var sizes []int
	for rem := n; rem > 0; {
		sz := 1 + t.Choose(minI(5, rem))
		sizes = append(sizes, sz)
		rem -= sz
	}
	arrival := make([]int, len(sizes))
	for i := range arrival {
		arrival[i] = i
	}
	if t.Choose(2) == 1 {
		arrival = drawPerm(t, len(sizes))
	}
	pred := drawPredicate(t)
	nw := 2 + t.Choose(5)
	size := 1 + t.Choose(8)
	paired := t.Choose(4) == 3
	mode := obiseq.SeqPredicateMode(0)
	modeName := ""
	var mates []Rec
	if paired {
		mates = annotatedRecs(t, n, false)
		for i := range mates {
			mates[i].ID = recs[i].ID
		}
		modes := []obiseq.SeqPredicateMode{obiseq.ForwardOnly, obiseq.ReverseOnly, obiseq.And, obiseq.Or, obiseq.AndNot, obiseq.Xor}
		k := t.Choose(len(modes))
		mode = modes[k]
		modeName = []string{"forward", "reverse", "and", "or", "andnot", "xor"}[k]
	}
	rc.Out.Sample = map[string]any{"stage": "library", "predicate": pred.text, "records": n, "batches": len(sizes), "workers": nw, "paired_mode": modeName}
	build := func() []obiiter.BioSequenceBatch {
		bs := makeBatches(recs, sizes, "sim")
		if paired {
			k := 0
			for _, b := range bs {
				for _, s := range b.Slice() {
					s.PairTo(mates[k].Bio())
					k++
				}
			}
		}
		return bs
	}
	// reference: a private instance of the predicate, one record after the other
	var want []string
	{
		p := pred.make()
		if paired {
			p = p.PairedPredicat(mode)
		}
		for _, b := range build() {
			for _, s := range b.Slice() {
				if p(s) {
					want = append(want, s.Id())
				}
			}
		}
	}
	var got []string
	batches := build()
	res := rc.Sim(SimOpts{YieldDensity: 1 + rc.Sched.Choose(3), PoolPolicy: t.Choose(4)}, func() {
		p := pred.make()
		if paired {
			p = p.PairedPredicat(mode)
		}
		it := inject(batches, arrival)
		out := it.FilterOn(p, size, nw)
		c := &collected{}
		collectFrom(out, c)
		got, _, _ = c.flat()
		obiiter.WaitForLastPipe()
	})
	rc.Out.Nontrivial = res.Contended > 0
	rc.Out.Key = fmt.Sprintf("lib/%s/%s/%d/%d/%s", pred.text, modeName, n, nw, res.Sig)
	rc.Probe("library_stage")
	kinds := []string{}
	for _, k := range []string{"approx", "seq~", "def~", "id~", "has(", "sample~", "len", "expr(", " AND ", " OR ", "NOT "} {
		if strings.Contains(pred.text, k) {
			kinds = append(kinds, strings.Trim(k, " (~"))
		}
	}
	if paired {
		kinds = append(kinds, "paired")
	}
	class := "C05/library[" + strings.Join(kinds, ",") + "]"
	if !rc.Liveness(res, class) {
		return
	}
	if res.Exited {
		rc.Violate(class+"/unexpected-exit", "FilterOn(%s) with %d workers ended the process: %s", pred.text, nw, describeExit(res))
		return
	}
	if !equalStrings(got, want) {
		rc.Violate(class+"/filter-depends-on-parallelism", "FilterOn(%s%s) with %d workers over %d batches keeps other records than the same predicate applied sequentially: %s",
			pred.text, map[bool]string{true: ", paired mode " + modeName, false: ""}[paired], nw, len(sizes), firstDiff(got, want))
	}
}
