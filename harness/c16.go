package harness

import (
	"fmt"
	"os"
	"path/filepath"
	"regexp"
	"sort"
	"strings"

	"git.metabarcoding.org/obitools/obitools4/obitools4/pkg/zverif/simrt"
)

// ---------------------------------------------------------------------------
// C16 — obigrep / obiannotate / obidistribute / obimultiplex -u act on each record as their
// options say.  The reference interpreter below is independent of pkg/obiseq predicates and
// workers: its own record type, its own composition logic, the options' documented meaning.
// ---------------------------------------------------------------------------

type irec struct {
	ID    string
	Seq   string
	Qual  string
	Annot map[string]string // values in their printed form
}

func (r irec) canon() string {
	keys := make([]string, 0, len(r.Annot))
	for k := range r.Annot {
		keys = append(keys, k)
	}
	sort.Strings(keys)
	parts := []string{}
	for _, k := range keys {
		parts = append(parts, k+"="+r.Annot[k])
	}
	return fmt.Sprintf("%s|%s|%s|%s", r.ID, r.Seq, r.Qual, strings.Join(parts, ";"))
}

func irecOf(r Rec) irec {
	o := irec{ID: r.ID, Seq: r.Seq, Annot: map[string]string{}}
	for k, v := range r.Annot {
		o.Annot[k] = fmt.Sprint(v)
	}
	if r.Def != "" {
		o.Annot["definition"] = r.Def
	}
	if r.Qual != nil {
		q := make([]byte, len(r.Qual))
		for i, v := range r.Qual {
			q[i] = v + 33
		}
		o.Qual = string(q)
	}
	return o
}

func irecOfParsed(p parsedRec) irec {
	o := irec{ID: p.ID, Seq: p.Seq, Qual: p.Qual, Annot: map[string]string{}}
	for k, v := range p.Annot {
		o.Annot[k] = fmt.Sprint(v)
	}
	if p.Def != "" {
		o.Annot["definition"] = p.Def
	}
	return o
}

func (r irec) count() int {
	if v, ok := r.Annot["count"]; ok {
		var c int
		fmt.Sscan(v, &c)
		return c
	}
	return 1
}

// ---- obigrep ----------------------------------------------------------------

type grepOpts struct {
	MinLen, MaxLen, MinCount, MaxCount int // 0: not given
	SeqPat, DefPat, IDPat              []string
	HasAttr                            []string
	AttrPat                            [][2]string
	IDList                             []string // nil: not given
	Expr                               []string // "annotations.count OP N"
	Approx                             *approxOpt
	Invert                             bool
	SaveDiscarded                      bool
	PairedMode                         string // "": unpaired input
	Tax                                *miniTax
	Restrict                           []int
	Ignore                             []int
	RequireRank                        string
}

// miniTax is a generated taxonomy: parent links, ranks, merged-id aliases.
type miniTax struct {
	Parent map[int]int
	Rank   map[int]string
	Alias  map[int]int // old id -> current id
	IDs    []int
}

func (t *miniTax) resolve(id int) (int, bool) {
	if _, ok := t.Parent[id]; ok {
		return id, true
	}
	if n, ok := t.Alias[id]; ok {
		return n, true
	}
	return 0, false
}

func (t *miniTax) inClade(id, clade int) bool {
	for {
		if id == clade {
			return true
		}
		p := t.Parent[id]
		if p == id {
			return false
		}
		id = p
	}
}

func (t *miniTax) hasRank(id int, rank string) bool {
	for {
		if t.Rank[id] == rank {
			return true
		}
		p := t.Parent[id]
		if p == id {
			return false
		}
		id = p
	}
}

func (t *miniTax) write(dir string) {
	var nodes, names, merged strings.Builder
	for _, id := range t.IDs {
		fmt.Fprintf(&nodes, "%d\t|\t%d\t|\t%s\t|\t\t|\n", id, t.Parent[id], t.Rank[id])
		fmt.Fprintf(&names, "%d\t|\ttaxon %d\t|\t\t|\tscientific name\t|\n", id, id)
	}
	olds := []int{}
	for o := range t.Alias {
		olds = append(olds, o)
	}
	sort.Ints(olds)
	for _, o := range olds {
		fmt.Fprintf(&merged, "%d\t|\t%d\t|\n", o, t.Alias[o])
	}
	os.MkdirAll(dir, 0755)
	os.WriteFile(filepath.Join(dir, "nodes.dmp"), []byte(nodes.String()), 0644)
	os.WriteFile(filepath.Join(dir, "names.dmp"), []byte(names.String()), 0644)
	os.WriteFile(filepath.Join(dir, "merged.dmp"), []byte(merged.String()), 0644)
}

func drawMiniTax(t *simrt.Tape) *miniTax {
	mt := &miniTax{Parent: map[int]int{1: 1}, Rank: map[int]string{1: "no rank"}, Alias: map[int]int{}, IDs: []int{1}}
	ranks := []string{"family", "genus", "species", "no rank", "order"}
	n := 5 + t.Choose(8)
	for i := 0; i < n; i++ {
		id := 10 + i
		mt.Parent[id] = mt.IDs[t.Choose(len(mt.IDs))]
		mt.Rank[id] = ranks[t.Choose(len(ranks))]
		mt.IDs = append(mt.IDs, id)
	}
	for i := 0; i < t.Choose(3); i++ {
		mt.Alias[900+i] = mt.IDs[t.Choose(len(mt.IDs))]
	}
	return mt
}

func (o grepOpts) args(dir string) []string {
	var a []string
	if o.MinLen > 0 {
		a = append(a, "-l", fmt.Sprint(o.MinLen))
	}
	if o.MaxLen > 0 {
		a = append(a, "-L", fmt.Sprint(o.MaxLen))
	}
	if o.MinCount > 0 {
		a = append(a, "-c", fmt.Sprint(o.MinCount))
	}
	if o.MaxCount > 0 {
		a = append(a, "-C", fmt.Sprint(o.MaxCount))
	}
	for _, p := range o.SeqPat {
		a = append(a, "-s", p)
	}
	for _, p := range o.DefPat {
		a = append(a, "-D", p)
	}
	for _, p := range o.IDPat {
		a = append(a, "-I", p)
	}
	for _, p := range o.HasAttr {
		a = append(a, "-A", p)
	}
	for _, p := range o.AttrPat {
		a = append(a, "-a", p[0]+"="+p[1])
	}
	if o.IDList != nil {
		a = append(a, "--id-list", filepath.Join(dir, "ids.txt"))
	}
	for _, e := range o.Expr {
		a = append(a, "-p", e)
	}
	if o.Approx != nil {
		a = append(a, "--approx-pattern", o.Approx.Pat)
		if o.Approx.Err > 0 {
			a = append(a, "--pattern-error", fmt.Sprint(o.Approx.Err))
		}
		if o.Approx.Indels {
			a = append(a, "--allows-indels")
		}
		if o.Approx.OnlyFwd {
			a = append(a, "--only-forward")
		}
	}
	if o.Tax != nil {
		a = append(a, "-t", filepath.Join(dir, "taxdump"))
		for _, x := range o.Restrict {
			a = append(a, "-r", fmt.Sprint(x))
		}
		for _, x := range o.Ignore {
			a = append(a, "-i", fmt.Sprint(x))
		}
		if o.RequireRank != "" {
			a = append(a, "--require-rank", o.RequireRank)
		}
	}
	if o.Invert {
		a = append(a, "-v")
	}
	if o.SaveDiscarded {
		a = append(a, "--save-discarded", filepath.Join(dir, "discarded.fastx"))
	}
	return a
}

func (o grepOpts) criteria() int {
	n := len(o.SeqPat) + len(o.DefPat) + len(o.IDPat) + len(o.HasAttr) + len(o.AttrPat) + len(o.Expr)
	if o.Approx != nil {
		n++
	}
	for _, v := range []int{o.MinLen, o.MaxLen, o.MinCount, o.MaxCount} {
		if v > 0 {
			n++
		}
	}
	if o.IDList != nil {
		n++
	}
	return n
}

// Boolean expressions of -p: drawn from a small grammar over what every generated record
// carries (count, sample, length); the closure is the reference meaning of the text.
var exprFns = map[string]func(irec) bool{}

func cmpInt(op string, a, b int) bool {
	switch op {
	case ">":
		return a > b
	case ">=":
		return a >= b
	case "<":
		return a < b
	case "<=":
		return a <= b
	case "==":
		return a == b
	case "!=":
		return a != b
	}
	return false
}

func drawAtom(t *simrt.Tape) (string, func(irec) bool) {
	ops := []string{">", ">=", "<", "==", "<=", "!="}
	switch t.Choose(4) {
	case 0, 1:
		op, n := ops[t.Choose(4)], 1+t.Choose(5)
		return fmt.Sprintf("annotations.count %s %d", op, n), func(r irec) bool { return cmpInt(op, r.count(), n) }
	case 2:
		op, n := ops[t.Choose(6)], 8+t.Choose(80)
		return fmt.Sprintf("sequence.Len() %s %d", op, n), func(r irec) bool { return cmpInt(op, len(r.Seq), n) }
	default:
		v := fmt.Sprintf("s%d", t.Choose(3))
		if t.Choose(2) == 1 {
			return fmt.Sprintf("annotations.sample != %q", v), func(r irec) bool { return r.Annot["sample"] != v }
		}
		return fmt.Sprintf("annotations.sample == %q", v), func(r irec) bool { return r.Annot["sample"] == v }
	}
}

func drawExpr(t *simrt.Tape) string {
	at, af := drawAtom(t)
	text, fn := at, af
	switch t.Choose(5) {
	case 1:
		bt, bf := drawAtom(t)
		text, fn = at+" && "+bt, func(r irec) bool { return af(r) && bf(r) }
	case 2:
		bt, bf := drawAtom(t)
		text, fn = at+" || "+bt, func(r irec) bool { return af(r) || bf(r) }
	case 3:
		text, fn = "!("+at+")", func(r irec) bool { return !af(r) }
	}
	exprFns[text] = fn
	return text
}

func evalExpr(e string, r irec) bool {
	return exprFns[e](r)
}

// ---- approximate IUPAC pattern (--approx-pattern) ---------------------------------

type approxOpt struct {
	Pat     string
	Err     int
	Indels  bool
	OnlyFwd bool
}

var iupacSet = map[byte]string{
	'a': "a", 'c': "c", 'g': "g", 't': "t", 'r': "ag", 'y': "ct", 'm': "ac", 'k': "gt", 's': "cg", 'w': "at",
	'b': "cgt", 'd': "agt", 'h': "act", 'v': "acg", 'n': "acgt",
}

func symMatches(sym, base byte) bool {
	return strings.IndexByte(iupacSet[sym], base) >= 0
}

// patternOccurs: the pattern occurs somewhere in s with at most e differences - substitutions
// only, or substitutions, insertions and deletions (edit distance to a substring of s).
func patternOccurs(rawpat, s string, e int, indels bool) bool {
	// a '#' after a symbol: no difference is tolerated at that position
	var pat []byte
	var strict []bool
	for i := 0; i < len(rawpat); i++ {
		if rawpat[i] == '#' {
			if len(strict) > 0 {
				strict[len(strict)-1] = true
			}
			continue
		}
		pat = append(pat, rawpat[i])
		strict = append(strict, false)
	}
	m, n := len(pat), len(s)
	if !indels {
		for i := 0; i+m <= n; i++ {
			d := 0
			for j := 0; j < m && d <= e; j++ {
				if !symMatches(pat[j], s[i+j]) {
					d++
					if strict[j] {
						d = e + 1
					}
				}
			}
			if d <= e {
				return true
			}
		}
		return false
	}
	prev := make([]int, n+1) // row 0: an occurrence may start anywhere
	cur := make([]int, n+1)
	for i := 1; i <= m; i++ {
		cur[0] = i
		for j := 1; j <= n; j++ {
			c := prev[j-1]
			if !symMatches(pat[i-1], s[j-1]) {
				c++
			}
			if prev[j]+1 < c {
				c = prev[j] + 1
			}
			if cur[j-1]+1 < c {
				c = cur[j-1] + 1
			}
			cur[j] = c
		}
		prev, cur = cur, prev
	}
	for j := 0; j <= n; j++ {
		if prev[j] <= e {
			return true
		}
	}
	return false
}

func (a *approxOpt) keeps(seq string) bool {
	pat := strings.ToLower(a.Pat)
	if patternOccurs(pat, seq, a.Err, a.Indels) {
		return true
	}
	// the other strand: the pattern read on the reverse complement of the sequence
	return !a.OnlyFwd && patternOccurs(pat, modelRC(seq), a.Err, a.Indels)
}

// drawApprox derives a pattern from a window of one record: some positions generalised to
// ambiguity codes, possibly written for the other strand, possibly one difference away.
func drawApprox(t *simrt.Tape, recs []Rec) *approxOpt {
	var cands []Rec
	for _, r := range recs {
		if len(r.Seq) >= 12 {
			cands = append(cands, r)
		}
	}
	if len(cands) == 0 {
		return nil
	}
	r := cands[t.Choose(len(cands))]
	m := 8 + t.Choose(5)
	short := t.Choose(3) == 2
	if short {
		m = 4 + t.Choose(3) // a short motif: many records carry it on one strand or the other
	}
	from := t.Choose(len(r.Seq) - m + 1)
	w := []byte(r.Seq[from : from+m])
	a := &approxOpt{Err: []int{0, 0, 1, 2}[t.Choose(4)], Indels: t.Choose(3) == 2, OnlyFwd: t.Choose(4) == 3}
	if short {
		a.Err = 0
	}
	if a.Err == 0 {
		a.Indels = false
	}
	// generalise 0-3 positions to a code that contains the base
	for k := t.Choose(4); k > 0; k-- {
		i := t.Choose(m)
		if strings.IndexByte(dna, w[i]) < 0 {
			continue // already an ambiguity code
		}
		var codes []byte
		for sym, set := range iupacSet {
			if len(set) > 1 && strings.IndexByte(set, w[i]) >= 0 {
				codes = append(codes, sym)
			}
		}
		sort.Slice(codes, func(x, y int) bool { return codes[x] < codes[y] })
		w[i] = codes[t.Choose(len(codes))]
	}
	// one difference away from the window it was cut from
	if a.Err > 0 && t.Choose(2) == 1 {
		i := 1 + t.Choose(m-2)
		if a.Indels && t.Choose(2) == 1 {
			w = append(w[:i], w[i+1:]...) // the sequence has one base more than the pattern
		} else {
			w[i] = dna[(strings.IndexByte(dna, r.Seq[from+i])+1+t.Choose(3))%4]
		}
	}
	// positions where no difference is tolerated ('#' after the symbol): substitutions only
	strict := make([]bool, len(w))
	if a.Err > 0 && !a.Indels && t.Choose(2) == 1 {
		for k := 1 + t.Choose(2); k > 0; k-- {
			strict[t.Choose(len(w))] = true
		}
	}
	if t.Choose(2) == 1 {
		// written for the other strand (c07Comp is the IUPAC complement)
		w = []byte(modelRC(string(w)))
		for x, y := 0, len(strict)-1; x < y; x, y = x+1, y-1 {
			strict[x], strict[y] = strict[y], strict[x]
		}
	}
	var pb strings.Builder
	for i, c := range w {
		pb.WriteByte(c)
		if strict[i] {
			pb.WriteByte('#')
		}
	}
	pat := pb.String()
	if t.Choose(2) == 1 {
		pat = strings.ToUpper(pat)
	}
	a.Pat = pat
	return a
}

// satisfies: every requested criterion holds for the record.
func (o grepOpts) satisfies(r irec) bool {
	L := len(r.Seq)
	if o.Approx != nil && !o.Approx.keeps(r.Seq) {
		return false
	}
	if o.MinLen > 0 && L < o.MinLen {
		return false
	}
	if o.MaxLen > 0 && L > o.MaxLen {
		return false
	}
	if o.MinCount > 0 && r.count() < o.MinCount {
		return false
	}
	if o.MaxCount > 0 && r.count() > o.MaxCount {
		return false
	}
	for _, p := range o.SeqPat {
		if !regexp.MustCompile("(?i)" + p).MatchString(r.Seq) {
			return false
		}
	}
	for _, p := range o.DefPat {
		if !regexp.MustCompile(p).MatchString(r.Annot["definition"]) {
			return false
		}
	}
	for _, p := range o.IDPat {
		if !regexp.MustCompile(p).MatchString(r.ID) {
			return false
		}
	}
	for _, k := range o.HasAttr {
		if _, ok := r.Annot[k]; !ok {
			return false
		}
	}
	for _, kp := range o.AttrPat {
		v, ok := r.Annot[kp[0]]
		if !ok || !regexp.MustCompile(kp[1]).MatchString(v) {
			return false
		}
	}
	if o.IDList != nil {
		in := false
		for _, id := range o.IDList {
			if id == r.ID {
				in = true
			}
		}
		if !in {
			return false
		}
	}
	for _, e := range o.Expr {
		if !evalExpr(e, r) {
			return false
		}
	}
	if o.Tax != nil && (len(o.Restrict) > 0 || len(o.Ignore) > 0 || o.RequireRank != "") {
		raw := 1 // a record without taxid belongs to the root
		if v, ok := r.Annot["taxid"]; ok {
			fmt.Sscan(v, &raw)
		}
		id, known := o.Tax.resolve(raw)
		if len(o.Restrict) > 0 {
			in := false
			for _, c := range o.Restrict {
				if known && o.Tax.inClade(id, c) {
					in = true
				}
			}
			if !in {
				return false
			}
		}
		for _, c := range o.Ignore {
			if known && o.Tax.inClade(id, c) {
				return false
			}
		}
		if o.RequireRank != "" && !(known && o.Tax.hasRank(id, o.RequireRank)) {
			return false
		}
	}
	return true
}

func (o grepOpts) keeps(r irec, mate *irec) bool {
	good := o.satisfies(r)
	if o.Invert {
		good = !good
	}
	if mate != nil && o.PairedMode != "" && o.PairedMode != "forward" {
		pg := o.satisfies(*mate)
		if o.Invert {
			pg = !pg
		}
		switch o.PairedMode {
		case "reverse":
			good = pg
		case "and":
			good = good && pg
		case "or":
			good = good || pg
		case "andnot":
			good = good && !pg
		case "xor":
			good = good != pg
		}
	}
	return good
}

func drawGrepOpts(t *simrt.Tape, recs []Rec) grepOpts {
	var o grepOpts
	lens := []int{}
	for _, r := range recs {
		lens = append(lens, len(r.Seq))
	}
	sort.Ints(lens)
	boundary := func() int {
		// a value at or around an existing length
		v := lens[t.Choose(len(lens))] + t.Choose(3) - 1
		if v < 2 {
			v = 2
		}
		return v
	}
	n := 1 + t.Choose(3)
	if t.Choose(6) == 5 {
		n = 4 + t.Choose(3)
	}
	for i := 0; i < n; i++ {
		switch t.Choose(13) {
		case 11, 12:
			o.Approx = drawApprox(t, recs)
		case 0:
			o.MinLen = boundary()
		case 1:
			o.MaxLen = boundary()
		case 2:
			o.MinCount = 2 + t.Choose(4)
		case 3:
			o.MaxCount = 1 + t.Choose(5)
		case 4:
			o.SeqPat = append(o.SeqPat, []string{"^a", "gg", "acg.*t", "t$", "[ct]a[ag]", `\Aa`, "GG", `c\z`, `[^\W]{3}g`}[t.Choose(9)])
		case 5:
			o.DefPat = append(o.DefPat, []string{"some", "text$", "^other"}[t.Choose(3)])
		case 6:
			o.IDPat = append(o.IDPat, []string{"1$", "r00[0-4]", "7", "^r"}[t.Choose(4)])
		case 7:
			o.HasAttr = append(o.HasAttr, []string{"tag", "sample", "absent", "definition"}[t.Choose(4)])
		case 8:
			o.AttrPat = append(o.AttrPat, [2]string{[]string{"sample", "tag", "count"}[t.Choose(3)], []string{"s0", "s[12]", "^x", "1", "y+"}[t.Choose(5)]})
		case 9:
			o.IDList = []string{}
			for _, r := range recs {
				if t.Choose(2) == 1 {
					o.IDList = append(o.IDList, r.ID)
				}
			}
			o.IDList = append(o.IDList, "not-an-id")
		case 10:
			o.Expr = append(o.Expr, drawExpr(t))
		}
	}
	// -a with the same key twice is a map on the command line: keep one per key
	seen := map[string]bool{}
	ap := o.AttrPat[:0]
	for _, kp := range o.AttrPat {
		if !seen[kp[0]] {
			seen[kp[0]] = true
			ap = append(ap, kp)
		}
	}
	o.AttrPat = ap
	o.Invert = t.Choose(4) == 3
	o.SaveDiscarded = t.Choose(3) == 2
	return o
}

func readFastxFile(path string) ([]irec, error) {
	raw, err := os.ReadFile(path)
	if err != nil {
		if os.IsNotExist(err) {
			return nil, nil
		}
		return nil, err
	}
	ps, err := parseObiFastx(raw)
	if err != nil {
		return nil, err
	}
	out := make([]irec, len(ps))
	for i, p := range ps {
		out[i] = irecOfParsed(p)
	}
	return out, nil
}

func canons(rs []irec) []string {
	out := make([]string, len(rs))
	for i, r := range rs {
		out[i] = r.canon()
	}
	return out
}

func optionNames(args []string) string {
	set := map[string]bool{}
	for _, a := range args {
		if strings.HasPrefix(a, "-") && len(a) > 1 && (a[1] < '0' || a[1] > '9') {
			set[a] = true
		}
	}
	return strings.Join(sortedKeys(set), " ")
}

func (rc *RunCtx) c16Run(name string, args []string, dir string, p parCfg) *CmdOutcome {
	full := append(p.cpuArgs(), args...)
	knobs := map[string]int{}
	if p.Chunk > 0 {
		knobs["chunk"] = p.Chunk
	}
	return rc.RunCmd(CmdSpec{Name: name, Args: full, Dir: dir, Knobs: knobs, PoolPolicy: p.Pool, YieldDensity: p.Yield, StderrNull: p.ErrNull})
}

func c16Grep(rc *RunCtx, t *simrt.Tape, dir string, p parCfg) {
	fastq := t.Choose(2) == 1
	n := 2 + t.Choose(30)
	recs := annotatedRecs(t, n, fastq)
	paired := t.Choose(3) == 2
	if paired && t.Choose(2) == 1 {
		// several write workers (a quarter of --max-cpu) and several batches: the two output
		// files are written from batches that complete in any order
		p.MaxCPU = []int{8, 32}[t.Choose(2)]
		p.BatchSize = 1 + t.Choose(3)
	}
	var mates []Rec
	o := drawGrepOpts(t, recs)
	if t.Choose(4) == 3 {
		// taxonomic restrictions on a generated taxonomy dump
		o.Tax = drawMiniTax(t)
		for i := range recs {
			switch t.Choose(6) {
			case 0: // no taxid: the root
			case 1:
				if len(o.Tax.Alias) > 0 {
					recs[i].Annot["taxid"] = 900 // a merged (old) identifier
				}
			default:
				recs[i].Annot["taxid"] = o.Tax.IDs[t.Choose(len(o.Tax.IDs))]
			}
		}
		for k := t.Choose(3); k > 0; k-- {
			o.Restrict = append(o.Restrict, o.Tax.IDs[t.Choose(len(o.Tax.IDs))])
		}
		for k := t.Choose(2); k > 0; k-- {
			o.Ignore = append(o.Ignore, o.Tax.IDs[1+t.Choose(len(o.Tax.IDs)-1)])
		}
		if t.Choose(3) == 2 {
			o.RequireRank = o.Tax.Rank[o.Tax.IDs[t.Choose(len(o.Tax.IDs))]]
		}
		o.Tax.write(filepath.Join(dir, "taxdump"))
		rc.Probe("taxonomy_options")
	}
	ext := ".fasta"
	text := fastaText
	if fastq {
		ext, text = ".fastq", fastqText
	}
	in := filepath.Join(dir, "in"+ext)
	os.WriteFile(in, text(recs, true), 0644)
	if o.IDList != nil {
		// the list as an editor or a shell pipeline leaves it: the foreign identifier first or
		// last, the last line with or without an end of line
		list := append([]string(nil), o.IDList...)
		if n := len(list); n > 1 {
			// the foreign identifier (appended last by the generator) goes anywhere
			k := t.Choose(n)
			list[k], list[n-1] = list[n-1], list[k]
		}
		// identifiers hold no blank (a FASTA/FASTQ title ends the identifier at the first one),
		// so blanks around an identifier of the list -- indentation, trailing blanks, the
		// carriage return of a CRLF file -- can only be layout: the line means the identifier
		if t.Choose(3) == 0 {
			for i := range list {
				switch t.Choose(5) {
				case 0:
					list[i] = "  " + list[i]
					rc.Probe("id_list_indented_line")
				case 1:
					list[i] = "\t" + list[i] + " "
					rc.Probe("id_list_indented_line")
				case 2:
					list[i] = list[i] + " \t"
					rc.Probe("id_list_trailing_blanks")
				case 3:
					list[i] = list[i] + "\r"
					rc.Probe("id_list_crlf")
				}
			}
		}
		text := strings.Join(list, "\n")
		if t.Choose(2) == 1 {
			text += "\n"
		} else {
			rc.Probe("id_list_without_final_newline")
		}
		os.WriteFile(filepath.Join(dir, "ids.txt"), []byte(text), 0644)
	}
	args := o.args(dir)
	if paired {
		mates = annotatedRecs(t, n, fastq)
		for i := range mates {
			mates[i].ID = recs[i].ID
		}
		os.WriteFile(filepath.Join(dir, "mates"+ext), text(mates, true), 0644)
		o.PairedMode = []string{"forward", "reverse", "and", "or", "andnot", "xor"}[t.Choose(6)]
		args = append(args, "--paired-with", filepath.Join(dir, "mates"+ext), "--paired-mode", o.PairedMode)
	}
	out := filepath.Join(dir, "out"+ext)
	args = append(args, "-o", out, in)
	rc.Out.Sample = map[string]any{"command": "obigrep", "options": relArgs(args, dir), "records": n, "paired": paired, "config": p.String()}
	co := rc.c16Run("obigrep", args, dir, p)
	rc.Out.Nontrivial = co.Contended > 0
	class := "C16/obigrep"
	if paired {
		class += "-paired"
	}
	rc.Out.Key = fmt.Sprintf("obigrep/%v/%s/%s", relArgs(args, dir), p, co.Sig)
	if !rc.cmdMustSucceed(co, class, fmt.Sprintf("obigrep %v (%s)", relArgs(args, dir), p)) {
		return
	}
	names := optionNames(o.args(dir))
	var wantKept, wantDisc, wantKeptMates []string
	for i, r := range recs {
		ir := irecOf(r)
		var mate *irec
		if paired {
			m := irecOf(mates[i])
			mate = &m
		}
		if o.keeps(ir, mate) {
			wantKept = append(wantKept, ir.canon())
			if mate != nil {
				wantKeptMates = append(wantKeptMates, mate.canon())
			}
		} else {
			wantDisc = append(wantDisc, ir.canon())
		}
	}
	report := func(what string, got, want []string) bool {
		if equalStrings(got, want) {
			return true
		}
		rc.Violate(fmt.Sprintf("%s/%s[%s]", class, what, names), "obigrep %v (%s): %s: %s\n(%d records in, %d expected kept)",
			relArgs(args, dir), p, what, firstDiff(got, want), n, len(wantKept))
		return false
	}
	if paired {
		r1, e1 := readFastxFile(filepath.Join(dir, "out_R1"+ext))
		r2, e2 := readFastxFile(filepath.Join(dir, "out_R2"+ext))
		if e1 != nil || e2 != nil {
			rc.Violate(class+"/unparsable-output", "%v %v", e1, e2)
			return
		}
		if !report("kept-forward-reads", canons(r1), wantKept) {
			return
		}
		report("mates-not-at-the-same-rank", canons(r2), wantKeptMates)
		return
	}
	got, err := readFastxFile(out)
	if err != nil {
		rc.Violate(class+"/unparsable-output", "%v", err)
		return
	}
	if !report("kept-records", canons(got), wantKept) {
		return
	}
	if o.SaveDiscarded {
		disc, err := readFastxFile(filepath.Join(dir, "discarded.fastx"))
		if err != nil {
			rc.Violate(class+"/unparsable-output", "%v", err)
			return
		}
		report("discarded-records", canons(disc), wantDisc)
	}
}

// ---- obiannotate --------------------------------------------------------------

type annotOpts struct {
	Clear   bool
	SetID   string // "": none; `"const"` or `annotations.sample`
	Delete  []string
	Keep    []string
	Rename  [][2]string // new, old
	Length  bool
	SetTag  [][2]string // key, expression (constant or attribute)
	CutFrom int
	CutTo   int
}

func (o annotOpts) args() []string {
	var a []string
	if o.Clear {
		a = append(a, "--clear")
	}
	if o.SetID != "" {
		a = append(a, "--set-identifier", o.SetID)
	}
	for _, k := range o.Delete {
		a = append(a, "--delete-tag", k)
	}
	for _, k := range o.Keep {
		a = append(a, "-k", k)
	}
	for _, r := range o.Rename {
		a = append(a, "-R", r[0]+"="+r[1])
	}
	if o.Length {
		a = append(a, "--length")
	}
	for _, s := range o.SetTag {
		a = append(a, "-S", s[0]+"="+s[1])
	}
	if o.CutFrom > 0 {
		a = append(a, "--cut", fmt.Sprintf("%d:%d", o.CutFrom, o.CutTo))
	}
	return a
}

func evalValue(expr string, r irec) (string, bool) {
	if strings.HasPrefix(expr, `"`) {
		return strings.Trim(expr, `"`), true
	}
	if strings.HasPrefix(expr, "annotations.") {
		v, ok := r.Annot[strings.TrimPrefix(expr, "annotations.")]
		return v, ok
	}
	return "", false
}

// apply is the documented meaning of the edits, in the order the command applies them.
func (o annotOpts) apply(r irec) irec {
	out := irec{ID: r.ID, Seq: r.Seq, Qual: r.Qual, Annot: map[string]string{}}
	for k, v := range r.Annot {
		out.Annot[k] = v
	}
	if o.Clear {
		out.Annot = map[string]string{}
	}
	if o.SetID != "" {
		if v, ok := evalValue(o.SetID, out); ok {
			out.ID = v
		}
	}
	for _, k := range o.Delete {
		delete(out.Annot, k)
	}
	if len(o.Keep) > 0 {
		for k := range out.Annot {
			keep := false
			for _, kk := range o.Keep {
				if kk == k {
					keep = true
				}
			}
			if !keep {
				delete(out.Annot, k)
			}
		}
	}
	for _, rn := range o.Rename {
		if v, ok := out.Annot[rn[1]]; ok {
			out.Annot[rn[0]] = v
			delete(out.Annot, rn[1])
		}
	}
	if o.Length {
		out.Annot["seq_length"] = fmt.Sprint(len(out.Seq))
	}
	for _, st := range o.SetTag {
		if v, ok := evalValue(st[1], out); ok {
			out.Annot[st[0]] = v
		}
	}
	if o.CutFrom > 0 {
		to := o.CutTo
		if to > len(out.Seq) {
			to = len(out.Seq)
		}
		out.Seq = out.Seq[o.CutFrom-1 : to]
		if out.Qual != "" {
			out.Qual = out.Qual[o.CutFrom-1 : to]
		}
		// the cut is a subsequence: the toolkit names it after its window
		out.ID = fmt.Sprintf("%s_sub[%d..%d]", out.ID, o.CutFrom, to)
	}
	return out
}

func c16Annotate(rc *RunCtx, t *simrt.Tape, dir string, p parCfg) {
	fastq := t.Choose(2) == 1
	n := 2 + t.Choose(30)
	recs := annotatedRecs(t, n, fastq)
	minLen := 1 << 30
	for _, r := range recs {
		if len(r.Seq) < minLen {
			minLen = len(r.Seq)
		}
	}
	var o annotOpts
	k := 1 + t.Choose(3)
	for i := 0; i < k; i++ {
		switch t.Choose(8) {
		case 0:
			o.Clear = true
		case 1:
			o.SetID = []string{`"fixed_id"`, "annotations.sample"}[t.Choose(2)]
		case 2:
			o.Delete = append(o.Delete, []string{"tag", "sample", "count", "absent"}[t.Choose(4)])
		case 3:
			o.Keep = append(o.Keep, []string{"count", "sample", "tag"}[t.Choose(3)])
		case 4:
			o.Rename = [][2]string{{"renamed", []string{"sample", "tag"}[t.Choose(2)]}}
		case 5:
			o.Length = true
		case 6:
			key := fmt.Sprintf("new%d", len(o.SetTag))
			o.SetTag = append(o.SetTag, [2]string{key, []string{`"v"`, "annotations.count", `"other"`}[t.Choose(3)]})
		case 7:
			o.CutFrom = 1 + t.Choose(minLen)
			o.CutTo = o.CutFrom + t.Choose(60)
		}
	}
	if o.Clear && o.SetID == "annotations.sample" {
		o.SetID = `"fixed_id"` // the attribute is gone after --clear
	}
	if o.Clear {
		for i := range o.SetTag {
			if strings.HasPrefix(o.SetTag[i][1], "annotations.") {
				o.SetTag[i][1] = `"v"`
			}
		}
	}
	usable := func(attr string) bool {
		for _, d := range o.Delete {
			if d == attr {
				return false
			}
		}
		if len(o.Keep) > 0 {
			for _, kk := range o.Keep {
				if kk == attr {
					return true
				}
			}
			return false
		}
		return true
	}
	for i := range o.SetTag {
		if o.SetTag[i][1] == "annotations.count" && !usable("count") {
			o.SetTag[i][1] = `"v"`
		}
	}
	ext := ".fasta"
	text := fastaText
	if fastq {
		ext, text = ".fastq", fastqText
	}
	in := filepath.Join(dir, "in"+ext)
	os.WriteFile(in, text(recs, true), 0644)
	out := filepath.Join(dir, "out"+ext)
	args := append(o.args(), "-o", out, in)
	rc.Out.Sample = map[string]any{"command": "obiannotate", "options": relArgs(args, dir), "records": n, "config": p.String()}
	co := rc.c16Run("obiannotate", args, dir, p)
	rc.Out.Nontrivial = co.Contended > 0
	rc.Out.Key = fmt.Sprintf("obiannotate/%v/%s/%s", relArgs(args, dir), p, co.Sig)
	if !rc.cmdMustSucceed(co, "C16/obiannotate", fmt.Sprintf("obiannotate %v (%s)", relArgs(args, dir), p)) {
		return
	}
	got, err := readFastxFile(out)
	if err != nil {
		rc.Violate("C16/obiannotate/unparsable-output", "%v", err)
		return
	}
	want := []string{}
	for _, r := range recs {
		want = append(want, o.apply(irecOf(r)).canon())
	}
	if !equalStrings(canons(got), want) {
		rc.Violate(fmt.Sprintf("C16/obiannotate/edits[%s]", optionNames(o.args())), "obiannotate %v (%s): %s", relArgs(args, dir), p, firstDiff(canons(got), want))
	}
}

// ---- obidistribute --------------------------------------------------------------

func c16Distribute(rc *RunCtx, t *simrt.Tape, dir string, p parCfg) {
	n := 2 + t.Choose(40)
	recs := annotatedRecs(t, n, false)
	for i := range recs {
		if t.Choose(5) == 4 {
			delete(recs[i].Annot, "sample") // routed to the NA value
		}
		if t.Choose(4) == 3 && i > 0 {
			recs[i].Seq = recs[t.Choose(i)].Seq // same sequence: same file under --hash
		}
	}
	na := "NA"
	withDir := false
	mode := t.Choose(4) // 0,1: -c sample ; 2: --batches N ; 3: --hash N
	nfiles := 2 + t.Choose(4)
	args := []string{"-p", filepath.Join(dir, "part_%s.fasta")}
	switch mode {
	case 2:
		args = append(args, "--batches", fmt.Sprint(nfiles))
	case 3:
		args = append(args, "--hash", fmt.Sprint(nfiles))
	default:
		args = append(args, "-c", "sample")
		if t.Choose(3) == 2 {
			na = "unknown"
			args = append(args, "--na-value", na)
		}
		if t.Choose(3) == 2 {
			// a second tag chooses the directory; the file name template is then relative to
			// the working directory of the command (the run's private directory)
			withDir = true
			args[1] = "part_%s.fasta"
			args = append(args, "-d", "tag")
			rc.Probe("obidistribute_directory_tag")
		}
	}
	gz := t.Choose(4) == 3
	suffix := ""
	if gz {
		args = append(args, "-Z")
		suffix = ".gz"
	}
	if t.Choose(3) == 2 {
		args = append(args, "--fasta-output") // else: the format is guessed from the records
	}
	in := filepath.Join(dir, "in.fasta")
	if mode <= 1 && t.Choose(3) == 2 {
		// two runs: the second one appends (-A) to the files the first one has written
		k := 1 + t.Choose(n-1)
		first := filepath.Join(dir, "first.fasta")
		os.WriteFile(first, fastaText(recs[:k], true), 0644)
		a1 := append(append([]string{}, args...), first)
		c1 := rc.c16Run("obidistribute", a1, dir, p)
		if !rc.cmdMustSucceed(c1, "C16/obidistribute", fmt.Sprintf("obidistribute %v (%s)", relArgs(a1, dir), p)) {
			return
		}
		os.WriteFile(in, fastaText(recs[k:], true), 0644)
		args = append(args, "-A")
		rc.Probe("obidistribute_append_to_existing_files")
	} else {
		os.WriteFile(in, fastaText(recs, true), 0644)
	}
	args = append(args, in)
	rc.Out.Sample = map[string]any{"command": "obidistribute", "options": relArgs(args, dir), "records": n, "config": p.String()}
	if mode <= 1 && !withDir && t.Choose(6) == 5 {
		// the output file of one class cannot be created (a directory bears its name): the
		// records of that class reach no file, so the command must not end successfully
		blocked := ""
		for _, r := range recs {
			if v, ok := r.Annot["sample"]; ok {
				blocked = fmt.Sprint(v)
				break
			}
		}
		bpath := filepath.Join(dir, "part_"+blocked+".fasta"+suffix)
		if blocked != "" {
			if _, err := os.Lstat(bpath); err == nil {
				blocked = "" // the file already exists (written by the first run of an append scenario)
			} else if os.MkdirAll(bpath, 0755) != nil {
				blocked = ""
			}
		}
		if blocked != "" {
			co := rc.c16Run("obidistribute", args, dir, p)
			rc.Fault("obidistribute_class_file_cannot_be_created")
			rc.Out.Nontrivial = true
			rc.Out.Key = fmt.Sprintf("obidistribute-blocked/%v/%s/%s", relArgs(args, dir), p, co.Sig)
			switch {
			case co.TimedOut || co.StepCap:
				rc.Inconclusive("%s", co.Describe())
			case co.Deadlock:
				rc.Violate("C16/obidistribute/hang-on-unwritable-class", "obidistribute %v: %s", relArgs(args, dir), co.Describe())
			case co.Crashed || co.Failed():
				rc.Probe("command_reported")
			default:
				rc.Violate("C16/obidistribute/class-without-output", "obidistribute %v (%s) exited with status 0 although the file of class %q could not be created (a directory has its name): its records are in no output", relArgs(args, dir), p, blocked)
			}
			return
		}
	}
	co := rc.c16Run("obidistribute", args, dir, p)
	rc.Out.Nontrivial = co.Contended > 0
	rc.Out.Key = fmt.Sprintf("obidistribute/%v/%s/%s", relArgs(args, dir), p, co.Sig)
	if !rc.cmdMustSucceed(co, "C16/obidistribute", fmt.Sprintf("obidistribute %v (%s)", relArgs(args, dir), p)) {
		return
	}
	files, _ := filepath.Glob(filepath.Join(dir, "part_*.fasta"+suffix))
	if withDir {
		files, _ = filepath.Glob(filepath.Join(dir, "*", "part_*.fasta"+suffix))
		if stray, _ := filepath.Glob(filepath.Join(dir, "part_*.fasta"+suffix)); len(stray) > 0 {
			rc.Violate("C16/obidistribute/file-set", "-d tag: files written outside the directories of their tag value: %v", relArgs(stray, dir))
			return
		}
	}
	got := map[string][]string{}
	for _, f := range files {
		raw, err := os.ReadFile(f)
		if err == nil && gz {
			raw, err = gunzip(raw)
		}
		if err != nil {
			rc.Violate("C16/obidistribute/unparsable-output", "%s: %v", filepath.Base(f), err)
			return
		}
		ps, err := parseObiFastx(raw)
		if err != nil {
			rc.Violate("C16/obidistribute/unparsable-output", "%s: %v", filepath.Base(f), err)
			return
		}
		rs := make([]irec, len(ps))
		for i, q := range ps {
			rs[i] = irecOfParsed(q)
		}
		name := strings.TrimSuffix(filepath.Base(f), suffix)
		if withDir {
			name = filepath.Base(filepath.Dir(f)) + "/" + name
		}
		got[name] = canons(rs)
	}
	modeName := []string{"classifier", "classifier", "batches", "hash"}[mode]
	switch mode {
	case 0, 1:
		want := map[string][]string{}
		for _, r := range recs {
			key := na
			if v, ok := r.Annot["sample"]; ok {
				key = fmt.Sprint(v)
			}
			file := "part_" + key + ".fasta"
			if withDir {
				d := na
				if v, ok := r.Annot["tag"]; ok {
					d = fmt.Sprint(v)
				}
				file = d + "/" + file
			}
			want[file] = append(want[file], irecOf(r).canon())
		}
		if !equalStrings(sortedKeys(got), sortedKeys(want)) {
			rc.Violate("C16/obidistribute/file-set", "files %v, expected exactly %v", sortedKeys(got), sortedKeys(want))
			return
		}
		for _, f := range sortedKeys(want) {
			if !equalStrings(got[f], want[f]) {
				rc.Violate("C16/obidistribute/routing/"+modeName, "file %s: %s", f, firstDiff(got[f], want[f]))
				return
			}
		}
	case 2:
		// records are dealt in turn, in input order
		want := map[string][]string{}
		for i, r := range recs {
			f := fmt.Sprintf("part_%d.fasta", i%nfiles+1)
			want[f] = append(want[f], irecOf(r).canon())
		}
		if !equalStrings(sortedKeys(got), sortedKeys(want)) {
			rc.Violate("C16/obidistribute/file-set", "--batches %d: files %v, expected %v", nfiles, sortedKeys(got), sortedKeys(want))
			return
		}
		for _, f := range sortedKeys(want) {
			if !equalStrings(got[f], want[f]) {
				rc.Violate("C16/obidistribute/routing/"+modeName, "--batches %d, file %s: %s", nfiles, f, firstDiff(got[f], want[f]))
				return
			}
		}
	case 3:
		// every record in exactly one file, chosen from its sequence alone, at most N files,
		// input order kept inside a file
		if len(got) > nfiles {
			rc.Violate("C16/obidistribute/file-set", "--hash %d produced %d files", nfiles, len(got))
			return
		}
		where := map[string]string{}
		seqFile := map[string]string{}
		rank := map[string]int{}
		for i, r := range recs {
			rank[irecOf(r).canon()] = i
		}
		for f, rs := range got {
			last := -1
			for _, c := range rs {
				if prev, dup := where[c]; dup {
					rc.Violate("C16/obidistribute/routing/"+modeName, "record %s is in %s and in %s", clip(c, 60), prev, f)
					return
				}
				where[c] = f
				k, known := rank[c]
				if !known {
					rc.Violate("C16/obidistribute/routing/"+modeName, "file %s holds a record that is not in the input: %s", f, clip(c, 80))
					return
				}
				if k < last {
					rc.Violate("C16/obidistribute/routing/"+modeName, "file %s: records are not in input order", f)
					return
				}
				last = k
				sq := strings.Split(c, "|")[1]
				if g, ok := seqFile[sq]; ok && g != f {
					rc.Violate("C16/obidistribute/routing/"+modeName, "sequence %s is routed to %s and to %s", clip(sq, 40), g, f)
					return
				}
				seqFile[sq] = f
			}
		}
		if len(where) != len(rank) {
			rc.Violate("C16/obidistribute/routing/"+modeName, "%d of %d distinct records written", len(where), len(rank))
		}
	}
}

// ---- obimultiplex -u --------------------------------------------------------------

func c16Multiplex(rc *RunCtx, t *simrt.Tape, dir string, p parCfg) {
	c := drawCmdCase(t, "obimultiplex", false)
	hasU := false
	for _, a := range c.Args {
		if a == "-u" {
			hasU = true
		}
	}
	if !hasU {
		c.Args = append(c.Args, "-u", "$D/unidentified.fastx")
	}
	c.OutOpt = true
	c.materialize(dir)
	spec := c.spec(dir, p)
	rc.Out.Sample = map[string]any{"command": "obimultiplex", "options": c.Args, "config": p.String()}
	co := rc.RunCmd(spec)
	rc.Out.Nontrivial = co.Contended > 0
	rc.Out.Key = fmt.Sprintf("obimultiplex/%v/%s/%s", c.Args, p, co.Sig)
	if !rc.cmdMustSucceed(co, "C16/obimultiplex", fmt.Sprintf("obimultiplex %v (%s)", c.Args, p)) {
		return
	}
	var inName string
	for k := range c.Files {
		if strings.HasPrefix(k, "in.") {
			inName = k
		}
	}
	input, _ := parseObiFastx(c.Files[inName])
	assigned, e1 := readFastxFile(filepath.Join(dir, "out.fastx"))
	unid, e2 := readFastxFile(filepath.Join(dir, "unidentified.fastx"))
	if e1 != nil || e2 != nil {
		rc.Violate("C16/obimultiplex/unparsable-output", "%v %v", e1, e2)
		return
	}
	where := map[string]int{}
	base := func(id string) string {
		// an assigned read is the barcode, a subsequence named after its window
		if k := strings.Index(id, "_sub["); k >= 0 {
			return id[:k]
		}
		return id
	}
	for _, r := range assigned {
		where[base(r.ID)]++
		if _, bad := r.Annot["obimultiplex_error"]; bad {
			rc.Violate("C16/obimultiplex/routing", "record %s carries an obimultiplex_error but is in the main output although -u was given", r.ID)
			return
		}
	}
	for _, r := range unid {
		where[base(r.ID)] += 100
		if _, bad := r.Annot["obimultiplex_error"]; !bad {
			rc.Violate("C16/obimultiplex/routing", "record %s is in the unidentified file without an obimultiplex_error", r.ID)
			return
		}
	}
	for _, r := range input {
		if w := where[r.ID]; w != 1 && w != 100 {
			rc.Violate("C16/obimultiplex/routing", "input read %s appears %d times in the main output and %d times in the unidentified file (expected exactly one of them)", r.ID, w%100, w/100)
			return
		}
	}
}

func runC16(rc *RunCtx) {
	t := rc.Plan
	which := t.Choose(8)
	p := drawParCfg(t, 20)
	dir := filepath.Join(rc.Dir, fmt.Sprintf("g%d", rc.Index))
	os.MkdirAll(dir, 0755)
	defer cleanup(dir)
	switch which {
	case 0, 1, 2, 3:
		c16Grep(rc, t, dir, p)
	case 4, 5:
		c16Annotate(rc, t, dir, p)
	case 6:
		c16Distribute(rc, t, dir, p)
	default:
		c16Multiplex(rc, t, dir, p)
	}
}

func init() {
	register(&Property{
		ID:     "C16",
		Random: func(tier string) int { return map[string]int{"quick": 700, "thorough": 30000}[tier] },
		Run:    runC16,
		Level:  "exploration",
		Rule:   "each case = generated records and a drawn subset of options (single options, pairs, larger subsets; repeatable options 1-3 times; length and count values at and around existing values) for obigrep (-l -L -c -C -s --approx-pattern (IUPAC codes, --pattern-error 0-2, --allows-indels, --only-forward, either strand) -D -I -A -a --id-list -p with comparisons of annotations.count, annotations.sample and sequence.Len() joined by && || ! -v --save-discarded, and --paired-with x --paired-mode forward/reverse/and/or/andnot/xor), obiannotate (--clear --set-identifier --delete-tag -k -R --length -S --cut), obidistribute (-c -p --na-value --batches --hash -Z --fasta-output, and a second run with -A on existing files) and obimultiplex -u, run through the real main of the command in a child process under a drawn --max-cpu / --batch-size / schedule / pool policy; a reference interpreter of the options' documented meaning computes the kept records, the discarded records, the edited records, the output file of each record and the mate ranks. distinct = distinct (command, option vector, configuration, schedule signature); non-trivial = at least one step with >=2 runnable tasks",
		Real:   []string{"the real mains of obigrep, obiannotate, obidistribute, obimultiplex", "obiseq predicates, workers, expression language", "obiiter FilterOn / DivideOn / Distribute / PairTo", "WriterDispatcher and the writers on real files"},
		Stub:   []string{"sync primitives, pools, scheduler (simrt)", "process exit (captured)", "the reference interpreter stands for the documentation of the options (stated subset only: no --aho-corasick, --pattern, taxonomy options, scripts)"},
	})
}
