package harness

import (
	"bufio"
	"bytes"
	"encoding/json"
	"fmt"
	"io"
	"os"
	"path/filepath"
	"sort"
	"strconv"
	"strings"

	"git.metabarcoding.org/obitools/obitools4/obitools4/pkg/obiformats"
	"git.metabarcoding.org/obitools/obitools4/obitools4/pkg/obiiter"
	"git.metabarcoding.org/obitools/obitools4/obitools4/pkg/obiseq"
	"git.metabarcoding.org/obitools/obitools4/obitools4/pkg/zverif/simrt"
)

// ---------------------------------------------------------------------------
// Rendering of ground-truth records as FASTA / FASTQ / GenBank / EMBL text
// ---------------------------------------------------------------------------

const (
	fmFasta = iota
	fmFastq
	fmGenbank
	fmEmbl
	nFormats
)

var fmNames = []string{"fasta", "fastq", "genbank", "embl"}

type fileShape struct {
	Format    int
	CRLF      bool
	Fold      int // fasta line width, 0 = unfolded
	Upper     bool
	Trailing  int  // blank lines at the end of the file
	NoFinalNL bool // last line without end-of-line
	PlusID    bool // fastq: '+' line repeats the identifier
	Solexa    bool // fastq: quality characters are score + 64 (read with --solexa)
	JSONHead  bool // fasta/fastq: annotations as a JSON header
	OBIHead   bool // fasta/fastq: annotations as "key=value;" pairs (the historical OBITools header)
}

func (sh fileShape) hasHead() bool { return sh.JSONHead || sh.OBIHead }

type fileCase struct {
	Shape fileShape
	Recs  []Rec
	Sci   []string // scientific names (flat files)
	Text  []byte
}

func jsonHeader(r Rec) string {
	if len(r.Annot) == 0 {
		return ""
	}
	keys := make([]string, 0, len(r.Annot))
	for k := range r.Annot {
		keys = append(keys, k)
	}
	sort.Strings(keys)
	parts := []string{}
	for _, k := range keys {
		b, _ := json.Marshal(r.Annot[k])
		parts = append(parts, fmt.Sprintf("%q:%s", k, b))
	}
	return "{" + strings.Join(parts, ",") + "}"
}

// obiHeader renders the annotations as the historical OBITools header: key=value; pairs, maps
// with single-quoted keys.
func obiHeader(r Rec) string {
	if len(r.Annot) == 0 {
		return ""
	}
	keys := make([]string, 0, len(r.Annot))
	for k := range r.Annot {
		keys = append(keys, k)
	}
	sort.Strings(keys)
	parts := []string{}
	for _, k := range keys {
		var v string
		switch x := r.Annot[k].(type) {
		case map[string]int:
			mk := make([]string, 0, len(x))
			for kk := range x {
				mk = append(mk, kk)
			}
			sort.Strings(mk)
			items := []string{}
			for _, kk := range mk {
				items = append(items, fmt.Sprintf("'%s': %d", kk, x[kk]))
			}
			v = "{" + strings.Join(items, ", ") + "}"
		case float64:
			v = strconv.FormatFloat(x, 'f', -1, 64)
		default:
			v = fmt.Sprint(x)
		}
		parts = append(parts, k+"="+v+";")
	}
	return strings.Join(parts, " ")
}

func fold(s string, w int) []string {
	if w <= 0 || len(s) <= w {
		return []string{s}
	}
	var out []string
	for i := 0; i < len(s); i += w {
		e := i + w
		if e > len(s) {
			e = len(s)
		}
		out = append(out, s[i:e])
	}
	return out
}

func renderFile(fc *fileCase) {
	sh := fc.Shape
	var lines []string
	for i, r := range fc.Recs {
		seq := r.Seq
		if sh.Upper {
			seq = strings.ToUpper(seq)
		}
		switch sh.Format {
		case fmFasta, fmFastq:
			head := r.ID
			if sh.JSONHead {
				if h := jsonHeader(r); h != "" {
					head += " " + h
				}
			}
			if sh.OBIHead {
				if h := obiHeader(r); h != "" {
					head += " " + h
				}
			}
			if r.Def != "" {
				head += " " + r.Def
			}
			if sh.Format == fmFasta {
				lines = append(lines, ">"+head)
				lines = append(lines, fold(seq, sh.Fold)...)
			} else {
				lines = append(lines, "@"+head, seq)
				if sh.PlusID {
					lines = append(lines, "+"+r.ID)
				} else {
					lines = append(lines, "+")
				}
				q := make([]byte, len(r.Qual))
				for j, v := range r.Qual {
					q[j] = v + 33
					if sh.Solexa {
						q[j] = v + 64
					}
				}
				lines = append(lines, string(q))
			}
		case fmGenbank:
			lines = append(lines, fmt.Sprintf("LOCUS       %-16s %6d bp    DNA     linear   PLN 01-JAN-2000", r.ID, len(r.Seq)))
			defs := strings.Split(r.Def, "|")
			for k, d := range defs {
				if k == 0 {
					lines = append(lines, "DEFINITION  "+d)
				} else {
					lines = append(lines, "            "+d)
				}
			}
			lines = append(lines, "ACCESSION   "+r.ID, "VERSION     "+r.ID+".1", "KEYWORDS    .")
			lines = append(lines, "SOURCE      "+fc.Sci[i], "  ORGANISM  "+fc.Sci[i], "            Eukaryota; Metazoa.")
			lines = append(lines, "FEATURES             Location/Qualifiers", fmt.Sprintf("     source          1..%d", len(r.Seq)),
				fmt.Sprintf("                     /organism=\"%s\"", fc.Sci[i]), "                     /mol_type=\"genomic DNA\"")
			if r.Taxid > 0 {
				lines = append(lines, fmt.Sprintf("                     /db_xref=\"taxon:%d\"", r.Taxid))
			}
			if len(seq) == 0 {
				// a CONTIG record: no ORIGIN section, no nucleotides of its own
				lines = append(lines, "CONTIG      join(AB000001.1:1..20,gap(980))")
			} else {
				lines = append(lines, "ORIGIN      ")
				for p := 0; p < len(seq); p += 60 {
					e := p + 60
					if e > len(seq) {
						e = len(seq)
					}
					lines = append(lines, fmt.Sprintf("%9d %s", p+1, strings.Join(fold(seq[p:e], 10), " ")))
				}
			}
			lines = append(lines, "//")
		case fmEmbl:
			lines = append(lines, fmt.Sprintf("ID   %s; SV 1; linear; genomic DNA; STD; PLN; %d BP.", r.ID, len(r.Seq)), "XX", "AC   "+r.ID+";", "XX")
			for _, d := range strings.Split(r.Def, "|") {
				lines = append(lines, "DE   "+d)
			}
			lines = append(lines, "XX", "OS   "+fc.Sci[i], "OC   Eukaryota; Metazoa.", "XX",
				"FH   Key             Location/Qualifiers", "FH", fmt.Sprintf("FT   source          1..%d", len(r.Seq)),
				fmt.Sprintf("FT                   /organism=\"%s\"", fc.Sci[i]))
			if r.Taxid > 0 {
				lines = append(lines, fmt.Sprintf("FT                   /db_xref=\"taxon:%d\"", r.Taxid))
			}
			lines = append(lines, "XX", fmt.Sprintf("SQ   Sequence %d BP;", len(r.Seq)))
			for p := 0; p < len(seq); p += 60 {
				e := p + 60
				if e > len(seq) {
					e = len(seq)
				}
				body := "     " + strings.Join(fold(seq[p:e], 10), " ")
				lines = append(lines, fmt.Sprintf("%-70s%10d", body, e))
			}
			lines = append(lines, "//")
		}
	}
	eol := "\n"
	if sh.CRLF {
		eol = "\r\n"
	}
	text := strings.Join(lines, eol)
	if !sh.NoFinalNL || sh.Format >= fmGenbank {
		text += eol
		text += strings.Repeat(eol, sh.Trailing)
	}
	fc.Text = []byte(text)
}

var sciNames = []string{"Homo sapiens", "Trifolium repens", "Abies alba", "Canis lupus familiaris"}

func genFile(t *simrt.Tape, maxRecs int, big bool) *fileCase {
	fc := &fileCase{}
	sh := &fc.Shape
	sh.Format = t.Choose(nFormats)
	n := 1 + t.Choose(maxRecs)
	sh.CRLF = t.Choose(4) == 3
	sh.Upper = t.Choose(4) == 3
	sh.Trailing = []int{0, 0, 1, 3}[t.Choose(4)]
	sh.NoFinalNL = t.Choose(5) == 4
	sh.Fold = []int{60, 0, 1, 7, 80, 13}[t.Choose(6)]
	sh.PlusID = t.Choose(3) == 2
	switch t.Choose(3) {
	case 1:
		sh.JSONHead = true
	case 2:
		sh.OBIHead = true
	}
	lo, hi := 1, 75
	if sh.Format >= fmGenbank {
		lo, hi = 1, 130
	}
	if big {
		lo, hi = 200, 900
	}
	fc.Recs = genRecs(t, n, 0, sh.Format == fmFastq, lo, hi)
	for i := range fc.Recs {
		r := &fc.Recs[i]
		// identifiers as they occur in the wild
		if t.Choose(4) == 3 {
			r.ID = []string{"M01:7:000-A", "seq|1|x", "a", "id.with.dots_" + r.ID}[t.Choose(4)] + r.ID
		}
		if sh.Format >= fmGenbank {
			r.Annot = nil
			r.Def = []string{"Homo sapiens mitochondrion, complete genome.", "gene for 12S rRNA|partial sequence.", "x", "first line|second line|third line."}[t.Choose(4)]
			if t.Choose(3) != 2 {
				r.Taxid = []int{9606, 3899, 45372, 9615, 2}[t.Choose(5)]
			}
			fc.Sci = append(fc.Sci, sciNames[t.Choose(len(sciNames))])
		} else if !sh.hasHead() {
			r.Annot = nil
		} else {
			// value types a header can carry beyond integers and words
			if t.Choose(3) == 2 {
				if r.Annot == nil {
					r.Annot = map[string]any{}
				}
				r.Annot["score"] = []float64{0.5, 0.25, 1.5, 12.75, -0.125, 3.0625}[t.Choose(6)]
			}
			if t.Choose(4) == 3 {
				if r.Annot == nil {
					r.Annot = map[string]any{}
				}
				r.Annot["merged_sample"] = map[string]int{"a": 1 + t.Choose(3), "b2": 1 + t.Choose(9)}
			}
			if t.Choose(5) == 4 {
				if r.Annot == nil {
					r.Annot = map[string]any{}
				}
				r.Annot["flag"] = t.Choose(2) == 1
			}
		}
	}
	renderFile(fc)
	return fc
}

// ---------------------------------------------------------------------------
// canonical views
// ---------------------------------------------------------------------------

// expectView is what the ground truth says about record i, in raw mode (no header parsing)
// or parsed mode (JSON header parsed into annotations).
func (fc *fileCase) expectView(i int, parsed bool) string {
	r := fc.Recs[i]
	q := ""
	if r.Qual != nil {
		q = fmt.Sprint(r.Qual)
	}
	switch fc.Shape.Format {
	case fmGenbank, fmEmbl:
		tax := r.Taxid
		if tax == 0 {
			tax = 1
		}
		return fmt.Sprintf("id=%s|seq=%s|def=%s|taxid=%d|sn=%s", r.ID, r.Seq, strings.ReplaceAll(r.Def, "|", " "), tax, fc.Sci[i])
	}
	if parsed {
		return fmt.Sprintf("id=%s|seq=%s|q=%s|def=%s|annot=%s", r.ID, r.Seq, q, r.Def, jsonHeader(r))
	}
	def := r.Def
	if fc.Shape.hasHead() {
		h := jsonHeader(r)
		if fc.Shape.OBIHead {
			h = obiHeader(r)
		}
		if h != "" {
			if def != "" {
				def = h + " " + def
			} else {
				def = h
			}
		}
	}
	return fmt.Sprintf("id=%s|seq=%s|q=%s|def=%s", r.ID, r.Seq, q, def)
}

func gotView(s *obiseq.BioSequence, format int, parsed bool) string {
	q := ""
	if s.HasQualities() {
		q = fmt.Sprint([]byte(s.Qualities()))
	}
	switch format {
	case fmGenbank, fmEmbl:
		sn, _ := s.GetAttribute("scientific_name")
		return fmt.Sprintf("id=%s|seq=%s|def=%s|taxid=%d|sn=%v", s.Id(), s.String(), s.Definition(), s.Taxid(), sn)
	}
	if parsed {
		m := map[string]any{}
		for k, v := range s.Annotations() {
			if k != "definition" {
				m[k] = v
			}
		}
		h := ""
		if len(m) > 0 {
			keys := make([]string, 0, len(m))
			for k := range m {
				keys = append(keys, k)
			}
			sort.Strings(keys)
			parts := []string{}
			for _, k := range keys {
				b, _ := json.Marshal(m[k])
				parts = append(parts, fmt.Sprintf("%q:%s", k, b))
			}
			h = "{" + strings.Join(parts, ",") + "}"
		}
		return fmt.Sprintf("id=%s|seq=%s|q=%s|def=%s|annot=%s", s.Id(), s.String(), q, s.Definition(), h)
	}
	return fmt.Sprintf("id=%s|seq=%s|q=%s|def=%s", s.Id(), s.String(), q, s.Definition())
}

// fullView includes every annotation: used for the cross-configuration comparison only.
func fullView(s *obiseq.BioSequence) string {
	q := ""
	if s.HasQualities() {
		q = fmt.Sprint([]byte(s.Qualities()))
	}
	keys := make([]string, 0)
	for k := range s.Annotations() {
		keys = append(keys, k)
	}
	sort.Strings(keys)
	parts := []string{}
	for _, k := range keys {
		b, _ := json.Marshal(s.Annotations()[k])
		parts = append(parts, k+"="+string(b))
	}
	return fmt.Sprintf("id=%s|seq=%s|q=%s|%s", s.Id(), s.String(), q, strings.Join(parts, ";"))
}

// ---------------------------------------------------------------------------
// reader configurations
// ---------------------------------------------------------------------------

type readCfg struct {
	Stage     int // 0 splitter stage (ReadSeqFileChunk + chunk parsers), 1 reader stage (Read*), 2 transport stage (Buf + sniffer + Read*)
	Chunk     int // buffer size B
	Workers   int
	ReadMode  int
	ZeroReads bool
	EOFData   bool
	Parsed    bool // header parser on (fasta/fastq)
	Churn     int  // buffers used and recycled by earlier users of the slice pool before the reader starts
	FullFile  bool
	Codec     int // transport stage: 0 plain, 1 gzip, 2 bzip2, 3 xz, 4 zstd
	ErrAt     int // -1 none
	ErrStyle  int // see simrt.SimReader.ErrStyle
	IOSeed    uint64
}

// codec 5 is gzip again, as `cat a.gz b.gz` or bgzip produce it: several members in one file
var codecNames = []string{"plain", "gzip", "bzip2", "xz", "zstd", "gzip"}

func (c readCfg) String() string {
	return fmt.Sprintf("stage=%d B=%d workers=%d readmode=%d zero=%v eofdata=%v parsed=%v fullfile=%v codec=%s pool-churn=%d errstyle=%d",
		c.Stage, c.Chunk, c.Workers, c.ReadMode, c.ZeroReads, c.EOFData, c.Parsed, c.FullFile, codecNames[c.Codec], c.Churn, c.ErrStyle)
}

type delivered struct {
	order int
	views []string
	full  []string
}

type readResult struct {
	res      SimResult
	batches  []delivered
	chunkErr string
	probes   map[string]int
	reader   *simrt.SimReader
	openErr  error
}

func splitterOf(format int) obiformats.LastSeqRecord {
	switch format {
	case fmFasta:
		return obiformats.EndOfLastFastaEntry
	case fmFastq:
		return obiformats.EndOfLastFastqEntry
	}
	return obiformats.EndOfLastFlatFileEntry
}

func chunkParserOf(format int) obiformats.SeqFileChunkParser {
	switch format {
	case fmFasta:
		return obiformats.FastaChunkParser()
	case fmFastq:
		return obiformats.FastqChunkParser(33, true)
	case fmGenbank:
		return obiformats.GenbankChunkParser(false)
	}
	return obiformats.EmblChunkParser(false)
}

func startsLikeRecord(format int, b []byte) bool {
	switch format {
	case fmFasta:
		return bytes.HasPrefix(b, []byte(">"))
	case fmFastq:
		return bytes.HasPrefix(b, []byte("@"))
	case fmGenbank:
		return bytes.HasPrefix(b, []byte("LOCUS       "))
	}
	return bytes.HasPrefix(b, []byte("ID   "))
}

func stripEOL(b []byte) []byte {
	return bytes.Map(func(r rune) rune {
		if r == '\n' || r == '\r' {
			return -1
		}
		return r
	}, b)
}

// readFile runs one reader configuration over data under the simulator.
func readFile(rc *RunCtx, format int, data []byte, cfg readCfg) *readResult {
	rr := &readResult{probes: map[string]int{}}
	// the endpoint has its own tape (derived from the plan): decompressors read ahead from
	// their own goroutines, which must not interleave draws with the scheduler's tape
	rd := simrt.NewSimReader(data, simrt.NewTape(cfg.IOSeed))
	rd.Mode, rd.ZeroReads, rd.EOFWithData, rd.ErrAt = cfg.ReadMode, cfg.ZeroReads, cfg.EOFData, cfg.ErrAt
	rd.ErrStyle = cfg.ErrStyle
	rr.reader = rd
	var collected []delivered
	collect := func(it obiiter.IBioSequence) {
		for it.Next() {
			b := it.Get()
			d := delivered{order: b.Order()}
			for _, s := range b.Slice() {
				d.views = append(d.views, gotView(s, format, cfg.Parsed))
				d.full = append(d.full, fullView(s))
			}
			collected = append(collected, d)
		}
	}
	opts := []obiformats.WithOption{obiformats.OptionsParallelWorkers(cfg.Workers), obiformats.OptionsSource("sim")}
	if !cfg.Parsed {
		opts = append(opts, obiformats.OptionFastSeqDoNotParseHeader())
	}
	if cfg.FullFile {
		opts = append(opts, obiformats.OptionsFullFileBatch(true))
	}
	knobs := map[string]int{"chunk": cfg.Chunk}
	rr.res = rc.Sim(SimOpts{Knobs: knobs, YieldDensity: rc.Sched.Choose(3)}, func() {
		// the pool as a filter, a previous file or another command stage leaves it: recycled
		// buffers that were full of someone else's bytes
		for i := 0; i < cfg.Churn; i++ {
			b := obiseq.GetSlice([]int{200, 1024, 60, 500, 1000}[i%5])
			b = append(b[:0], bytes.Repeat([]byte{'#'}, cap(b))...)
			obiseq.RecycleSlice(&b)
		}
		switch cfg.Stage {
		case 0:
			ch := obiformats.ReadSeqFileChunk("sim", rd, make([]byte, cfg.Chunk), splitterOf(format))
			var wg simrt.WaitGroup
			var mu simrt.Mutex
			emitted := [][]byte{}
			orders := []int{}
			for w := 0; w < cfg.Workers; w++ {
				wg.Add(1)
				simrt.Go("chunk-parser", func() {
					defer wg.Done()
					parser := chunkParserOf(format)
					for {
						c, ok := simrt.Recv2(ch)
						if !ok {
							return
						}
						raw := append([]byte(nil), c.Raw.Bytes()...)
						mu.Lock()
						emitted = append(emitted, raw)
						orders = append(orders, c.Order)
						mu.Unlock()
						seqs, err := parser(c.Source, c.Raw)
						if err != nil {
							panic(err)
						}
						d := delivered{order: c.Order}
						for _, s := range seqs {
							d.views = append(d.views, gotView(s, format, false))
							d.full = append(d.full, fullView(s))
						}
						mu.Lock()
						collected = append(collected, d)
						mu.Unlock()
					}
				})
			}
			wg.Wait()
			// channel invariants: numbers 0..n-1 in emission order, every chunk starts a record,
			// concatenation (line ends aside) is the file
			byOrder := make([][]byte, len(emitted))
			for i, o := range orders {
				if o < 0 || o >= len(emitted) || byOrder[o] != nil {
					rr.chunkErr = fmt.Sprintf("chunk numbers are not a permutation of 0..%d: %v", len(emitted)-1, orders)
					return
				}
				byOrder[o] = emitted[i]
			}
			var cat []byte
			for o, c := range byOrder {
				if len(stripEOL(c)) == 0 {
					// trailing blank lines of the file: harmless, parses to an empty batch
					rr.probes["blank_only_chunk"]++
					continue
				}
				if !startsLikeRecord(format, c) {
					rr.chunkErr = fmt.Sprintf("chunk %d does not start at a record start: %q", o, clip(string(c), 60))
					return
				}
				cat = append(cat, c...)
			}
			if !bytes.Equal(stripEOL(cat), stripEOL(data)) {
				rr.chunkErr = fmt.Sprintf("concatenation of the %d chunks (%d bytes without line ends) is not the file (%d bytes)", len(byOrder), len(stripEOL(cat)), len(stripEOL(data)))
			}
			if len(emitted) > 1 {
				rr.probes["multi_chunk"]++
			}
			for i, o := range orders {
				if i != o {
					rr.probes["chunk_consumed_out_of_order"]++
					break
				}
			}
		case 1:
			var it obiiter.IBioSequence
			var err error
			switch format {
			case fmFasta:
				it, err = obiformats.ReadFasta(rd, opts...)
			case fmFastq:
				it, err = obiformats.ReadFastq(rd, opts...)
			case fmGenbank:
				it, err = obiformats.ReadGenbank(rd, opts...)
			case fmEmbl:
				it, err = obiformats.ReadEMBL(rd, opts...)
			}
			if err != nil {
				rr.openErr = err
				return
			}
			collect(it)
			obiiter.WaitForLastPipe()
		case 3:
			// the composition Read{Fasta,Fastq,Genbank,EMBL}FromFile performs when the format is
			// given explicitly (--fasta, --fastq, ...): codec detection, then the reader, no sniffer
			file, err := obiformats.Buf(rd)
			if err == obiformats.ErrNoContent {
				rr.probes["treated_as_empty_file"]++
				return
			}
			if err != nil {
				rr.openErr = err
				return
			}
			var it obiiter.IBioSequence
			switch format {
			case fmFasta:
				it, err = obiformats.ReadFasta(file, opts...)
			case fmFastq:
				it, err = obiformats.ReadFastq(file, opts...)
			case fmGenbank:
				it, err = obiformats.ReadGenbank(file, opts...)
			case fmEmbl:
				it, err = obiformats.ReadEMBL(file, opts...)
			}
			if err != nil {
				rr.openErr = err
				return
			}
			collect(it)
			obiiter.WaitForLastPipe()
		case 2:
			// the composition ReadSequencesFromFile performs on an opened file
			file, err := obiformats.Buf(rd)
			if err == obiformats.ErrNoContent {
				// ReadSequencesFromFile: "file is empty" -> an empty stream, no error
				rr.probes["treated_as_empty_file"]++
				return
			}
			if err != nil {
				rr.openErr = err
				return
			}
			mime, reader, err := obiformats.OBIMimeTypeGuesser(file)
			if err != nil {
				rr.openErr = err
				return
			}
			reader = bufio.NewReader(reader)
			var it obiiter.IBioSequence
			switch mime.String() {
			case "text/fastq":
				it, err = obiformats.ReadFastq(reader, opts...)
			case "text/fasta":
				it, err = obiformats.ReadFasta(reader, opts...)
			case "text/embl":
				it, err = obiformats.ReadEMBL(reader, opts...)
			case "text/genbank":
				it, err = obiformats.ReadGenbank(reader, opts...)
			default:
				rr.openErr = fmt.Errorf("guessed format %s", mime.String())
				return
			}
			if err != nil {
				rr.openErr = err
				return
			}
			collect(it)
			obiiter.WaitForLastPipe()
		}
	})
	rr.batches = collected
	// what a free-running decompressor goroutine had read ahead when a fatal stopped the run is
	// not part of the outcome: the event log keeps the deterministic facts only
	if rr.res.Exited || rr.res.Deadlock {
		rc.Log("read cfg=%s stopped", cfg)
	} else {
		rc.Log("read cfg=%s delivered=%d", cfg, len(collected))
	}
	return rr
}

// flatten orders the delivered batches by number and checks the numbering.
func flatten(bs []delivered) (views, full []string, numbering string) {
	sorted := append([]delivered(nil), bs...)
	sort.SliceStable(sorted, func(i, j int) bool { return sorted[i].order < sorted[j].order })
	for i, b := range sorted {
		if b.order != i && numbering == "" {
			ord := []int{}
			for _, x := range sorted {
				ord = append(ord, x.order)
			}
			numbering = fmt.Sprintf("batch numbers are not 0..%d without gap or duplicate: %v", len(sorted)-1, ord)
		}
		views = append(views, b.views...)
		full = append(full, b.full...)
	}
	return
}

// ---------------------------------------------------------------------------
// C01
// ---------------------------------------------------------------------------

var c01Corpus []*fileCase

func c01CorpusList(tier string) []*fileCase {
	n := 8
	if tier == "thorough" {
		n = 40
	}
	if len(c01Corpus) < n {
		c01Corpus = nil
		for i := 0; i < n; i++ {
			t := simrt.NewTape(simrt.Mix(0xC01, uint64(i)))
			// force the format round-robin: prefix tape
			t = simrt.PrefixTape([]int32{int32(i % nFormats), 2 + int32(i%3)}, simrt.Mix(0xC01, uint64(i)))
			c01Corpus = append(c01Corpus, genFile(t, 5, false))
		}
	}
	return c01Corpus[:n]
}

const c01MinB = 8

func c01EnumCount(tier string) int {
	n := 0
	for _, fc := range c01CorpusList(tier) {
		n += len(fc.Text) + 3 - c01MinB
	}
	return n
}

func c01Case(tier string, i int) []int32 {
	for k, fc := range c01CorpusList(tier) {
		m := len(fc.Text) + 3 - c01MinB
		if i < m {
			return []int32{1, int32(k), int32(i)}
		}
		i -= m
	}
	return nil
}

func drawReadCfg(t *simrt.Tape, dataLen int, allowTransport bool) readCfg {
	var c readCfg
	c.ErrAt = -1
	ns := 2
	if allowTransport {
		ns = 4
	}
	c.Stage = t.Choose(ns)
	switch t.Choose(5) {
	case 0:
		c.Chunk = dataLen + 1
	case 1:
		c.Chunk = c01MinB + t.Choose(56)
	case 2:
		c.Chunk = c01MinB + t.Choose(dataLen+2)
	case 3:
		c.Chunk = 64 + t.Choose(200)
	default:
		c.Chunk = c01MinB + t.Choose(dataLen/2+2)
	}
	c.Workers = 1 + t.Choose(4)
	c.IOSeed = uint64(t.Choose(1 << 30))
	c.ReadMode = t.Choose(3)
	c.ZeroReads = t.Choose(3) == 2
	c.EOFData = t.Choose(3) == 2
	c.Parsed = t.Choose(2) == 1
	c.FullFile = t.Choose(6) == 5
	c.Churn = []int{0, 0, 1, 5}[t.Choose(4)]
	if c.Stage >= 2 {
		c.Codec = t.Choose(6)
		// files, pipes and sockets never answer (0, nil); some decompressors do not accept it
		c.ZeroReads = false
	}
	return c
}

func checkRead(rc *RunCtx, prop string, fc *fileCase, cfg readCfg, rr *readResult) (views, full []string, ok bool) {
	fm := fmNames[fc.Shape.Format]
	if !rc.Liveness(rr.res, prop+"/"+fm) {
		return nil, nil, false
	}
	if rr.res.Exited {
		rc.Violate(fmt.Sprintf("%s/%s/fatal-on-wellformed/stage%d", prop, fm, cfg.Stage), "the reader ended the process on a well-formed %s file (%s): %s\nfile: %q",
			fm, cfg, describeExit(rr.res), clip(string(fc.Text), 500))
		return nil, nil, false
	}
	if rr.openErr != nil {
		rc.Violate(fmt.Sprintf("%s/%s/open-error/stage%d", prop, fm, cfg.Stage), "reader returned an error on a well-formed file (%s): %v", cfg, rr.openErr)
		return nil, nil, false
	}
	if rr.chunkErr != "" {
		rc.Violate(fmt.Sprintf("%s/%s/chunk-invariant", prop, fm), "%s (%s)", rr.chunkErr, cfg)
		return nil, nil, false
	}
	views, full, numbering := flatten(rr.batches)
	if numbering != "" && !cfg.FullFile {
		rc.Violate(fmt.Sprintf("%s/%s/batch-numbering/stage%d", prop, fm, cfg.Stage), "%s (%s)", numbering, cfg)
		return nil, nil, false
	}
	return views, full, true
}

func runC01(rc *RunCtx) {
	t := rc.Plan
	var fc *fileCase
	var cfg readCfg
	mode := t.Choose(8) // 1: sweep corpus (enumerated part), 7: command stage, else generated file
	if mode == 7 {
		c01Command(rc, t)
		return
	}
	if mode == 1 {
		corpus := c01CorpusList(rc.Tier)
		fc = corpus[t.Choose(len(corpus))]
		b := c01MinB + t.Choose(4096)
		if b > len(fc.Text)+2 {
			b = len(fc.Text) + 2
		}
		cfg = drawReadCfg(t, len(fc.Text), false)
		cfg.Chunk = b
		cfg.FullFile = false
	} else {
		big := t.Choose(8) == 7
		maxRecs := 12
		if rc.Thorough() {
			maxRecs = 40
		}
		fc = genFile(t, maxRecs, big)
		cfg = drawReadCfg(t, len(fc.Text), true)
	}
	format := fc.Shape.Format
	fm := fmNames[format]
	if format >= fmGenbank || cfg.Stage == 0 {
		cfg.Parsed = false
	}
	if cfg.Parsed && !fc.Shape.hasHead() {
		// a title line without an annotation header: the definition is free text, and what
		// the guessing parser makes of free text is not stated anywhere
		cfg.Parsed = false
	}
	if mode != 1 && format == fmGenbank && t.Choose(3) == 2 {
		// some records are CONTIG records (generated files only: the sweep corpus is shared between runs) (after, before or between ordinary ones)
		for i := range fc.Recs {
			if t.Choose(3) == 2 {
				fc.Recs[i].Seq = ""
			}
		}
		renderFile(fc)
		rc.Probe("genbank_contig_records")
	}
	data := fc.Text
	if cfg.Stage >= 2 && t.Choose(5) == 4 {
		// a byte order mark in front of the text (an editor's doing), inside the compressed stream
		data = append([]byte{0xEF, 0xBB, 0xBF}, fc.Text...)
		rc.Probe("byte_order_mark")
		if cfg.Stage >= 2 && cfg.Codec > 0 {
			data = compress(cfg.Codec, data)
		}
	} else if cfg.Stage >= 2 && cfg.Codec > 0 {
		data = compress(cfg.Codec, fc.Text)
	}
	rc.Out.Sample = map[string]any{"format": fm, "records": len(fc.Recs), "bytes": len(fc.Text), "shape": fc.Shape, "config": cfg.String()}
	rr := readFile(rc, format, data, cfg)
	for k, v := range rr.probes {
		for i := 0; i < v; i++ {
			rc.Probe(k)
		}
	}
	if rr.reader.Short > 0 {
		rc.Probe("short_reads")
	}
	if cfg.Chunk < len(fc.Text) {
		rc.Probe("buffer_smaller_than_file")
	}
	rc.Out.Nontrivial = cfg.Chunk < len(fc.Text) || cfg.Workers > 1 || cfg.ReadMode != 0
	rc.Out.Key = fmt.Sprintf("%s/%d/%s/%s", fm, len(fc.Text), cfg, rr.res.Sig)
	views, full, ok := checkRead(rc, "C01", fc, cfg, rr)
	if !ok {
		return
	}
	expect := make([]string, len(fc.Recs))
	for i := range fc.Recs {
		expect[i] = fc.expectView(i, cfg.Parsed)
	}
	if !equalStrings(views, expect) {
		what := "records-differ"
		if format >= fmGenbank {
			// distinguish the taxon cross-reference inheritance from everything else
			stripTax := func(a []string) []string {
				out := make([]string, len(a))
				for i, s := range a {
					if k := strings.Index(s, "|taxid="); k >= 0 {
						s = s[:k]
					}
					out[i] = s
				}
				return out
			}
			if equalStrings(stripTax(views), stripTax(expect)) {
				what = "taxon-differs"
			}
		}
		rc.Violate(fmt.Sprintf("C01/%s/%s/stage%d", fm, what, cfg.Stage), "delivered records differ from the records of the file (%s): %s\nfile: %q",
			cfg, firstDiff(views, expect), clip(string(fc.Text), 700))
		return
	}
	// metamorphic: same file, reference configuration (one chunk, one worker, whole-buffer reads)
	ref := readCfg{Stage: 1, Chunk: len(fc.Text) + 1, Workers: 1, Parsed: cfg.Parsed, ErrAt: -1}
	if cfg.Stage == 0 {
		ref.Stage = 0
	}
	rr2 := readFile(rc, format, fc.Text, ref)
	_, full2, ok := checkRead(rc, "C01", fc, ref, rr2)
	if !ok {
		return
	}
	if !equalStrings(full, full2) {
		rc.Violate(fmt.Sprintf("C01/%s/config-dependence/stage%d", fm, cfg.Stage), "the same file gives different records under (%s) and (%s): %s", cfg, ref, firstDiff(full, full2))
	}
}

func init() {
	register(&Property{
		ID:            "C01",
		JobTimeoutSec: 600,
		Enum:          c01EnumCount,
		Case:          c01Case,
		Random:        func(tier string) int { return map[string]int{"quick": 2500, "thorough": 100000}[tier] },
		Run:           runC01,
		Level:         "exploration",
		Rule:          "enumerated part: every read-buffer size B from 8 to len+2 (= every cut position) for a fixed corpus of FASTA/FASTQ/GenBank/EMBL files (8 quick, 40 thorough), each with a drawn stage, worker count, read-size pattern and schedule; random part: generated files (line folding, CRLF, upper case, trailing blank lines, no final newline, quality lines with @ + >, headers with > @ +, JSON headers, flat-file records with and without taxon cross-reference), three stages (ReadSeqFileChunk + chunk parsers; Read*; Buf + sniffer + Read* over plain/gzip/bzip2/xz/zstd), 1-4 parser workers, short/zero/EOF-with-data reads. distinct = distinct (format, size, configuration, schedule signature); non-trivial = buffer smaller than the file, or >=2 workers, or short reads",
		Real:          []string{"obiformats.ReadSeqFileChunk and EndOfLast{Fasta,Fastq,FlatFile}Entry", "Fasta/Fastq/Genbank/Embl chunk parsers", "ReadFasta/ReadFastq/ReadGenbank/ReadEMBL", "Buf (codec detection, pgzip/bzip2/xz/zstd decoders)", "OBIMimeTypeGuesser", "header parsers", "obiiter iterators"},
		Stub:          []string{"input endpoint (simrt.SimReader: read sizes, zero reads, EOF-with-data)", "chunk-buffer size (knob)", "sync primitives and scheduler (simrt)", "the dispatch of ReadSequencesFromFile is transcribed in the harness for the library stage (the real one runs in the command stage)"},
	})
}

// ---------------------------------------------------------------------------
// compression with the repository's own modules
// ---------------------------------------------------------------------------

func compress(codec int, data []byte) []byte {
	var buf bytes.Buffer
	var w io.WriteCloser
	var err error
	switch codec {
	case 5:
		// three members (the middle one may be empty for tiny inputs)
		a, b := len(data)/3, 2*len(data)/3
		for _, part := range [][]byte{data[:a], data[a:b], data[b:]} {
			buf.Write(compress(1, part))
		}
		return buf.Bytes()
	case 1:
		w = newGzipWriter(&buf)
	case 2:
		w, err = newBzip2Writer(&buf)
	case 3:
		w, err = newXzWriter(&buf)
	case 4:
		w, err = newZstdWriter(&buf)
	default:
		return data
	}
	if err != nil {
		panic(err)
	}
	w.Write(data)
	w.Close()
	return buf.Bytes()
}

// zstdBlockStarts returns the offsets of the block headers of the first frame of a zstd image
// (RFC 8878: magic, frame header descriptor, optional window / dictionary id / content size
// fields, then blocks with a 3-byte header: last flag, type, size).
func zstdBlockStarts(img []byte) []int {
	if len(img) < 6 || img[0] != 0x28 || img[1] != 0xB5 || img[2] != 0x2F || img[3] != 0xFD {
		return nil
	}
	fhd := img[4]
	pos := 5
	single := fhd&0x20 != 0
	if !single {
		pos++ // window descriptor
	}
	pos += []int{0, 1, 2, 4}[fhd&3]
	switch fhd >> 6 {
	case 0:
		if single {
			pos++
		}
	case 1:
		pos += 2
	case 2:
		pos += 4
	case 3:
		pos += 8
	}
	var starts []int
	for pos+3 <= len(img) {
		h := int(img[pos]) | int(img[pos+1])<<8 | int(img[pos+2])<<16
		starts = append(starts, pos)
		size := h >> 3
		if (h>>1)&3 == 1 {
			size = 1 // RLE block: one byte of content
		}
		pos += 3 + size
		if h&1 == 1 {
			break
		}
	}
	return starts
}

// memberBoundary tells whether cutting the several-member gzip image of text at k leaves a
// complete gzip file (one or two whole members): such a cut is not a damaged input.
func memberBoundary(text []byte, k int) bool {
	a, b := len(text)/3, 2*len(text)/3
	n := 0
	for _, part := range [][]byte{text[:a], text[a:b]} {
		n += len(compress(1, part))
		if k == n {
			return true
		}
	}
	return false
}

// ---------------------------------------------------------------------------
// C17 — truncated / corrupt compressed input and read errors are fatal
// ---------------------------------------------------------------------------

type c17Image struct {
	fc    *fileCase
	codec int
	data  []byte
}

var c17Images []c17Image

func c17ImageList() []c17Image {
	if c17Images == nil {
		for codec := 1; codec <= 5; codec++ {
			for f := 0; f < 2; f++ {
				t := simrt.PrefixTape([]int32{int32(f), 3}, simrt.Mix(0xC17, uint64(codec*2+f)))
				fc := genFile(t, 5, false)
				c17Images = append(c17Images, c17Image{fc, codec, compress(codec, fc.Text)})
			}
		}
		for f := 0; f < 2; f++ {
			t := simrt.PrefixTape([]int32{int32(f), 3}, simrt.Mix(0xC17, uint64(100+f)))
			fc := genFile(t, 5, false)
			c17Images = append(c17Images, c17Image{fc, 0, fc.Text})
		}
	}
	return c17Images
}

const (
	fkTruncate = iota
	fkFlip
	fkReadErr
)

var fkNames = []string{"truncate", "bitflip", "readerror"}

type c17case struct{ img, kind, k, bit int }

var c17CaseCache = map[string][]c17case{}

func c17Cases(tier string) []c17case {
	if c, ok := c17CaseCache[tier]; ok {
		return c
	}
	var out []c17case
	for i, im := range c17ImageList() {
		n := len(im.data)
		if im.codec > 0 {
			for k := 1; k < n; k++ {
				out = append(out, c17case{i, fkTruncate, k, 0})
			}
			for k := 0; k < n; k++ {
				if tier == "thorough" {
					for b := 0; b < 8; b++ {
						out = append(out, c17case{i, fkFlip, k, b})
					}
				} else {
					out = append(out, c17case{i, fkFlip, k, (k * 3) % 8})
				}
			}
		}
		for k := 0; k <= n; k++ {
			// bit = the style of the error: alone, or in the same Read as the last bytes; lasting
			// in both.  Style 2 of the endpoint (reported once, then a clean end) is not drawn:
			// the decoders and files behind the property keep their error, and the codec
			// sniffing of the unchanged tree (bufio Peek) forgets a once-only error by design
			for st := 0; st < 2; st++ {
				out = append(out, c17case{i, fkReadErr, k, st})
			}
		}
	}
	c17CaseCache[tier] = out
	return out
}

func region(k, n int) string {
	switch {
	case k < 4:
		return "magic"
	case k < 16:
		return "header"
	case k >= n-12:
		return "trailer"
	}
	return "body"
}

func runC17(rc *RunCtx) {
	t := rc.Plan
	var fc *fileCase
	var codec, kind, k, bit int
	var image []byte
	m17 := t.Choose(8) // 1: fixed images (enumerated part), 7: command stage, else generated file
	if m17 == 7 {
		if t.Choose(4) == 3 {
			c17StdinError(rc, t)
		} else {
			c17Command(rc, t)
		}
		return
	}
	if m17 == 1 {
		imgs := c17ImageList()
		im := imgs[t.Choose(len(imgs))]
		fc, codec, image = im.fc, im.codec, im.data
		kind = t.Choose(3)
		k = t.Choose(8192)
		bit = t.Choose(8)
		if codec == 0 {
			kind = fkReadErr
		}
	} else {
		maxRecs := 30
		if rc.Thorough() {
			maxRecs = 200
		}
		fc = genFile(t, maxRecs, t.Choose(4) == 3)
		codec = t.Choose(6)
		image = compress(codec, fc.Text)
		kind = t.Choose(3)
		if codec == 0 {
			kind = fkReadErr
		}
		n := len(image)
		switch t.Choose(4) {
		case 0:
			k = t.Choose(n)
		case 1:
			k = n - 1 - t.Choose(minI(16, n))
		case 2:
			k = t.Choose(minI(24, n))
		default:
			k = t.Choose(n)
		}
		bit = t.Choose(8)
		if t.Choose(12) == 11 {
			// a zstd frame of several blocks, damaged in the head of a block that is not the
			// first (literals header, Huffman / FSE table descriptions): the decoder has
			// already delivered data when it meets the damage
			recs := genRecs(t, 260+t.Choose(100), 0, false, 500, 900)
			fc = &fileCase{Shape: fileShape{Format: fmFasta, Fold: 60}, Recs: recs}
			renderFile(fc)
			codec, kind = 4, fkFlip
			image = compress(codec, fc.Text)
			if starts := zstdBlockStarts(image); len(starts) >= 2 {
				b := starts[1+t.Choose(len(starts)-1)]
				k = b + 3 + t.Choose(40)
				if k >= len(image) {
					k = len(image) - 1
				}
				rc.Probe("zstd_later_block_head_damaged")
			}
		}
	}
	n := len(image)
	cfg := drawReadCfg(t, len(fc.Text), true)
	cfg.Stage, cfg.Codec, cfg.Parsed, cfg.FullFile = 2+t.Choose(2), codec, false, false
	data := image
	switch kind {
	case fkTruncate:
		if k < 1 {
			k = 1
		}
		if k > n-1 {
			k = n - 1
		}
		if codec == 5 && memberBoundary(fc.Text, k) {
			rc.Probe("cut_between_gzip_members_is_a_valid_file")
			rc.Out.Key = fmt.Sprintf("member-boundary/%d/%d", n, k)
			return
		}
		data = image[:k]
	case fkFlip:
		if k > n-1 {
			k = n - 1
		}
		data = append([]byte(nil), image...)
		data[k] ^= 1 << bit
		if d := os.Getenv("VERIF_DUMP_DIR"); d != "" {
			// debugging aid of `vcheck replay`: the intact and the damaged image
			os.WriteFile(filepath.Join(d, "image.bin"), image, 0644)
			os.WriteFile(filepath.Join(d, "damaged.bin"), data, 0644)
			os.WriteFile(filepath.Join(d, "text.txt"), fc.Text, 0644)
		}
	case fkReadErr:
		if k > n {
			k = n
		}
		cfg.ErrAt = k
		cfg.ErrStyle = bit % 2
		rc.Probe(fmt.Sprintf("read_error_style_%d", cfg.ErrStyle))
	}
	format := fc.Shape.Format
	codecName := codecNames[codec]
	reg := region(k, n)
	rc.Out.Sample = map[string]any{"format": fmNames[format], "codec": codecName, "image_bytes": n, "fault": fkNames[kind], "offset": k, "bit": bit, "region": reg, "config": cfg.String()}
	rr := readFile(rc, format, data, cfg)
	rc.Fault(fmt.Sprintf("%s_%s_%s", fkNames[kind], codecName, reg))
	rc.Out.Nontrivial = true
	rc.Out.Key = fmt.Sprintf("%s/%s/%s/%d/%d/%d", fmNames[format], codecName, fkNames[kind], n, k, bit)
	res := rr.res
	base := fmt.Sprintf("C17/%s/%s", codecName, fkNames[kind])
	if res.StepCap {
		rc.Inconclusive("step cap")
		return
	}
	if res.Deadlock {
		rc.Violate(base+"/hang/"+reg, "the reader hangs on the faulted input (%s offset %d of %d): %s", fkNames[kind], k, n, strings.Join(res.Blocked, "\n"))
		return
	}
	if res.Exited || rr.openErr != nil {
		// reported: a fatal, a crash (non-zero exit) or an error returned to the caller, which
		// the commands turn into a fatal
		if res.Panic != "" {
			rc.Probe("reported_by_panic")
		} else if rr.openErr != nil {
			rc.Probe("reported_by_returned_error")
		} else {
			rc.Probe("reported_by_fatal")
		}
		return
	}
	views, _, _ := flatten(rr.batches)
	expect := make([]string, len(fc.Recs))
	for i := range fc.Recs {
		expect[i] = fc.expectView(i, false)
	}
	complete := equalStrings(views, expect)
	outcome := "ok-partial"
	if complete {
		outcome = "ok-complete"
	} else if len(views) >= len(expect) {
		outcome = "ok-wrong"
	} else {
		for i := range views {
			if views[i] != expect[i] {
				outcome = "ok-wrong"
			}
		}
	}
	if kind == fkFlip && complete {
		rc.Probe("flip_immaterial")
		return
	}
	dec := "decoder-reported"
	if kind != fkReadErr && decoderSilent(codec, data) {
		dec = "decoder-silent"
	}
	rc.Violate(fmt.Sprintf("%s/%s/%s/%s", base, dec, outcome, reg),
		"%s at offset %d (bit %d) of a %d-byte %s image was not reported: the reader ended normally after delivering %d of %d records (%s); the %s library used directly on the same bytes: %s; warnings: %v",
		fkNames[kind], k, bit, n, codecName, len(views), len(expect), cfg, codecName, dec, rr.res.LogLines)
}

func minI(a, b int) int {
	if a < b {
		return a
	}
	return b
}

func init() {
	register(&Property{
		ID:            "C17",
		JobTimeoutSec: 900,
		Enum:          func(tier string) int { return len(c17Cases(tier)) },
		Case: func(tier string, i int) []int32 {
			c := c17Cases(tier)[i]
			return []int32{1, int32(c.img), int32(c.kind), int32(c.k), int32(c.bit)}
		},
		Random: func(tier string) int { return map[string]int{"quick": 2000, "thorough": 80000}[tier] },
		Run:    runC17,
		Level:  "fault_enumeration",
		Rule:   "enumerated part: for 8 compressed images (gzip, bzip2, xz, zstd x FASTA, FASTQ) every truncation point 1..len-1, a bit flip in every byte (one bit per byte quick, all 8 bits thorough) and a read error (EIO) after k bytes for every k (also on 2 plain images); random part: generated files of all four formats up to 200 records, random codec, fault kind and offset (biased to the first 24 and last 16 bytes), random chunk-buffer size, workers and read-size pattern. Oracle: fatal / error returned / crash = reported; ended normally = violation, except a bit flip after which every record is delivered unchanged. distinct = distinct (format, codec, fault kind, image size, offset, bit); every case is non-trivial (the fault is in the data the reader consumes)",
		Real:   []string{"obiformats.Buf (magic detection, pgzip/bzip2/xz/zstd decoders)", "OBIMimeTypeGuesser", "ReadFasta/ReadFastq/ReadGenbank/ReadEMBL", "ReadSeqFileChunk", "logrus Fatal path"},
		Stub:   []string{"input endpoint (simrt.SimReader with truncation / bit flip / error-after-k)", "process exit (captured)", "the format dispatch of ReadSequencesFromFile (transcribed; the real one runs in the command stage)", "sync primitives and scheduler (simrt)"},
	})
}
