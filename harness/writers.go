package harness

import (
	"bytes"
	"compress/gzip"
	"encoding/csv"
	"encoding/json"
	"fmt"
	"io"
	"os"
	"path/filepath"
	"strings"
	"syscall"

	"git.metabarcoding.org/obitools/obitools4/obitools4/pkg/obiformats"
	"git.metabarcoding.org/obitools/obitools4/obitools4/pkg/obiiter"
	"git.metabarcoding.org/obitools/obitools4/obitools4/pkg/zverif/simrt"
)

// ---------------------------------------------------------------------------
// C04 — writers emit every batch once, in order, well-formed
// C18 — write failures are reported (same workload + a fault plan)
// ---------------------------------------------------------------------------

const (
	wkChunk = iota
	wkFasta
	wkFastq
	wkJSON
	wkCSV
	wkAuto // WriteSequence: peeks the first batch to choose FASTA or FASTQ, then pushes it back
	nWriterKinds
)

var wkNames = []string{"chunkwriter", "fasta", "fastq", "json", "csv", "auto"}

type writerPlan struct {
	Kind       int
	N          int
	Sizes      []int
	Arrival    []int
	Workers    int
	Compressed bool
	DontClose  bool // JSON / CSV on a stream the writer does not own (as WriteJSONToStdout does)
	CSVAuto    bool
	CSVCols    int // bit 0: count, 1: definition, 2: the "sample" attribute, 3: quality
	Recs       []Rec
	LongSeq    bool
	SkipEmpty  bool // OptionsSkipEmptySequence: zero-length sequences are left out (with a warning), the others written
	ToFile     int  // 0: simulated endpoint; 1: the ...ToFile entry point on a new file; 2: on a file left by a longer run; 3: on a shorter one; 4: longer one, append mode
	Giant      int  // >0: one batch formats to more than Giant bytes (a block larger than any buffer of the output stack)
}

func (p writerPlan) sample() map[string]any {
	return map[string]any{"writer": wkNames[p.Kind], "batches": p.N, "sizes": p.Sizes, "arrival": permString(p.Arrival),
		"workers": p.Workers, "compressed": p.Compressed, "dont_close": p.DontClose, "csv_auto": p.CSVAuto, "csv_columns": p.CSVCols, "records": len(p.Recs), "giant_batch_bytes": p.Giant, "to_file": p.ToFile, "skip_empty": p.SkipEmpty}
}

var sizeTable = []int{1, 0, 2, 3}

func drawWriterPlan(t *simrt.Tape, maxN int, big bool) writerPlan {
	var p writerPlan
	p.Kind = t.Choose(nWriterKinds)
	p.N = t.Choose(maxN + 1)
	shape := t.Choose(16)
	if shape == 15 && !big {
		// many batches: a re-sequencing buffer of any fixed size is overrun when one batch is
		// overtaken by all the others
		p.N = 18 + t.Choose(40)
	}
	total := 0
	for i := 0; i < p.N; i++ {
		s := sizeTable[t.Choose(4)]
		if shape == 15 && !big {
			s = 1
		}
		p.Sizes = append(p.Sizes, s)
		total += s
	}
	p.Arrival = drawPerm(t, p.N)
	p.Workers = 1 + t.Choose(4)
	if p.Kind != wkChunk {
		p.Compressed = t.Choose(3) == 2
	}
	if p.Kind == wkJSON || p.Kind == wkCSV {
		p.DontClose = t.Choose(3) == 2
	}
	if p.Kind == wkCSV {
		p.CSVAuto = t.Choose(4) == 3
		if !p.CSVAuto && t.Choose(2) == 1 {
			p.CSVCols = 1 + t.Choose(15)
		}
	}
	lo, hi := 3, 70
	if big {
		p.LongSeq = true
		lo, hi = 900, 2500
	}
	if shape == 14 && !big && total <= 8 {
		// every batch formats to 70-200 KB: above the 64 KiB thresholds of buffer pools and
		// of the compressor's blocks
		p.LongSeq = true
		lo, hi = 70000, 100000
	}
	p.Recs = genRecs(t, total, 0, p.Kind == wkFastq || (p.Kind == wkJSON && t.Choose(2) == 1) || (p.Kind == wkCSV && p.CSVCols&8 != 0 && t.Choose(2) == 1), lo, hi)
	if p.Kind == wkJSON || p.Kind == wkFastq {
		// quality strings are arbitrary printable ASCII: '\\' is Q59, 'u' Q84, digits Q15-24
		for i := range p.Recs {
			if q := p.Recs[i].Qual; len(q) >= 8 && t.Choose(3) == 2 {
				at := t.Choose(len(q) - 6)
				for j, c := range []byte([]string{"\\u0041", "\\uzz~!", "\\\\\"\\n"}[t.Choose(3)]) {
					q[at+j] = c - 33
				}
			}
		}
	}
	if p.Kind == wkJSON {
		for i := range p.Recs {
			if t.Choose(4) == 3 {
				p.Recs[i].Def = []string{`a "quoted" word`, "5' <-> 3' & more", "tab\there", "caf\u00e9 au lait", `back\\slash`, `literal \u0041 and \uzz`}[t.Choose(6)]
			}
		}
	}
	if p.Kind == wkCSV && p.CSVCols&2 != 0 {
		// definitions that need quoting
		for i := range p.Recs {
			if t.Choose(3) == 2 {
				p.Recs[i].Def = []string{`he said "x", twice`, "a,b", `"`, " leading space", "semi;colon"}[t.Choose(5)]
			}
		}
	}
	if (p.Kind == wkFasta || p.Kind == wkFastq || p.Kind == wkAuto) && !p.LongSeq && t.Choose(6) == 5 {
		// zero-length sequences anywhere in their batch, and the option that skips them
		p.SkipEmpty = true
		for i := range p.Recs {
			if t.Choose(3) == 2 {
				p.Recs[i].Seq = ""
				if p.Recs[i].Qual != nil {
					p.Recs[i].Qual = []byte{}
				}
			}
		}
		if p.Kind == wkAuto && len(p.Recs) > 0 && p.Recs[0].Seq == "" {
			p.Recs[0].Seq = "acgt" // WriteSequence looks at the first record to choose the format
			if p.Recs[0].Qual != nil {
				p.Recs[0].Qual = []byte{30, 30, 30, 30}
			}
		}
	}
	if !big && p.N >= 2 && t.Choose(64) == 0 {
		makeGiant(t, &p)
	}
	return p
}

// makeGiant turns one batch of the plan into a block of 8-11 MB next to batches of a few
// bytes: far more than the bufio / pgzip / chunk buffers of the output stack, so that any
// size-dependent path of that stack (direct writes of large blocks, buffer growth) is taken
// while small blocks are still buffered.
func makeGiant(t *simrt.Tape, p *writerPlan) {
	size := (8 << 20) + t.Choose(3<<20)
	switch p.Kind {
	case wkChunk:
		var cand []int
		for i, s := range p.Sizes {
			if s > 0 {
				cand = append(cand, i)
			}
		}
		if len(cand) == 0 {
			return
		}
		g := cand[t.Choose(len(cand))]
		p.Sizes[g] = size/len(fmt.Sprintf("chunk%d;", g)) + 1
	case wkFasta, wkFastq, wkAuto:
		if len(p.Recs) == 0 {
			return
		}
		g := t.Choose(len(p.Recs))
		block := genSeq(t, 97, 97, dna)
		p.Recs[g].Seq = strings.Repeat(block, size/97+1)
		if p.Recs[g].Qual != nil {
			q := make([]byte, len(p.Recs[g].Seq))
			for i := range q {
				q[i] = byte(2 + (i*7)%38)
			}
			p.Recs[g].Qual = q
		}
	default:
		return
	}
	p.Giant = size
}

// enumerated cases of C04: every arrival permutation for n <= maxPerm (no empty batch, one
// formatting worker), and every subset of empty batches x every permutation for n <= maxSub.
func c04Cases(tier string) [][]int32 {
	maxPerm, maxSub := 5, 3
	if tier == "thorough" {
		maxPerm, maxSub = 6, 4
	}
	var out [][]int32
	for kind := 0; kind < nWriterKinds; kind++ {
		for n := 0; n <= maxPerm; n++ {
			for _, dv := range allDigitVectors(n) {
				c := []int32{int32(kind), int32(n)}
				for i := 0; i < n; i++ {
					c = append(c, 0) // size 1
				}
				c = append(c, dv...)
				c = append(c, 0, 0) // one worker, not compressed
				out = append(out, c)
			}
		}
		for n := 1; n <= maxSub; n++ {
			for mask := 1; mask < 1<<n; mask++ {
				for _, dv := range allDigitVectors(n) {
					c := []int32{int32(kind), int32(n)}
					for i := 0; i < n; i++ {
						if mask&(1<<i) != 0 {
							c = append(c, 1) // empty
						} else {
							c = append(c, 0)
						}
					}
					c = append(c, dv...)
					c = append(c, 0, 0)
					out = append(out, c)
				}
			}
		}
	}
	return out
}

var c04CaseCache = map[string][][]int32{}

func c04CaseList(tier string) [][]int32 {
	if c, ok := c04CaseCache[tier]; ok {
		return c
	}
	c := c04Cases(tier)
	c04CaseCache[tier] = c
	return c
}

type writerRun struct {
	res  SimResult
	w    *simrt.SimWriteCloser
	plan writerPlan
}

func writerOptions(p writerPlan) []obiformats.WithOption {
	o := []obiformats.WithOption{
		obiformats.OptionsParallelWorkers(p.Workers),
		obiformats.OptionsCompressed(p.Compressed),
	}
	if p.DontClose {
		o = append(o, obiformats.OptionDontCloseFile())
	} else {
		o = append(o, obiformats.OptionCloseFile())
	}
	if p.CSVAuto {
		o = append(o, obiformats.CSVAutoColumn(true))
	}
	if p.SkipEmpty {
		o = append(o, obiformats.OptionsSkipEmptySequence(true))
	}
	if p.CSVCols != 0 {
		o = append(o, obiformats.CSVCount(p.CSVCols&1 != 0), obiformats.CSVDefinition(p.CSVCols&2 != 0), obiformats.CSVQuality(p.CSVCols&8 != 0))
		if p.CSVCols&4 != 0 {
			o = append(o, obiformats.CSVKeys([]string{"sample"}))
		}
	}
	return o
}

func chunkText(i, size int) []byte {
	if size == 0 {
		return nil
	}
	return []byte(strings.Repeat(fmt.Sprintf("chunk%d;", i), size) + "\n")
}

// runWriter executes one writer run under the simulator.
func runWriter(rc *RunCtx, p writerPlan, w *simrt.SimWriteCloser) SimResult {
	var batches []obiiter.BioSequenceBatch
	if p.Kind != wkChunk {
		batches = makeBatches(p.Recs, p.Sizes, "sim")
	}
	// sub-statement scheduling points inside the chunk writer: "main returns before the writer
	// goroutine has closed the file" must be a reachable interleaving
	density := rc.Sched.Choose(4)
	if p.Giant > 0 {
		density = 0 // per-nucleotide loops of a 10 MB record would exhaust the step budget
	}
	maxSteps := 0
	if p.N > 1000 {
		density, maxSteps = 0, 40000000
	}
	return rc.Sim(SimOpts{YieldDensity: density, MaxSteps: maxSteps}, func() {
		switch p.Kind {
		case wkChunk:
			ch, _ := obiformats.WriteSeqFileChunk(w, true)
			for _, i := range p.Arrival {
				simrt.Send(ch, obiformats.SeqFileChunk{Source: "sim", Raw: bytes.NewBuffer(chunkText(i, p.Sizes[i])), Order: i})
			}
			simrt.Close(ch)
		default:
			it := inject(batches, p.Arrival)
			var out obiiter.IBioSequence
			var err error
			switch p.Kind {
			case wkFasta:
				out, err = obiformats.WriteFasta(it, w, writerOptions(p)...)
			case wkFastq:
				out, err = obiformats.WriteFastq(it, w, writerOptions(p)...)
			case wkJSON:
				out, err = obiformats.WriteJSON(it, w, writerOptions(p)...)
			case wkCSV:
				out, err = obiformats.WriteCSV(it, w, writerOptions(p)...)
			case wkAuto:
				out, err = obiformats.WriteSequence(it, w, writerOptions(p)...)
			}
			if err != nil {
				panic(err)
			}
			out.Consume()
		}
		obiiter.WaitForLastPipe()
	})
}

func gunzip(b []byte) ([]byte, error) {
	zr, err := gzip.NewReader(bytes.NewReader(b))
	if err != nil {
		return nil, err
	}
	return io.ReadAll(zr)
}

// expectedText is the concatenation, in batch-number order, of the text of each batch.
func expectedText(p writerPlan) []byte {
	var buf bytes.Buffer
	if p.Kind == wkChunk {
		for i := range p.Sizes {
			buf.Write(chunkText(i, p.Sizes[i]))
		}
		return buf.Bytes()
	}
	batches := makeBatches(p.Recs, p.Sizes, "sim")
	for _, b := range batches {
		switch p.Kind {
		case wkFasta, wkAuto:
			buf.Write(obiformats.FormatFastaBatch(b, obiformats.FormatFastSeqJsonHeader, p.SkipEmpty).Bytes())
		case wkFastq:
			buf.Write(obiformats.FormatFastqBatch(b, obiformats.FormatFastSeqJsonHeader, p.SkipEmpty).Bytes())
		}
	}
	return buf.Bytes()
}

// parseFastx is the harness' own minimal reader of what the writers emit.
func parseFastx(text []byte, fastq bool) []string {
	var ids []string
	lines := strings.Split(string(text), "\n")
	if fastq {
		for i := 0; i+3 < len(lines); i += 4 {
			if !strings.HasPrefix(lines[i], "@") {
				return append(ids, "<malformed:"+clip(lines[i], 30)+">")
			}
			ids = append(ids, strings.Fields(lines[i][1:])[0])
		}
		return ids
	}
	for _, l := range lines {
		if strings.HasPrefix(l, ">") {
			ids = append(ids, strings.Fields(l[1:])[0])
		}
	}
	return ids
}

func arrivalShape(p writerPlan) string {
	empty, reordered := 0, 0
	for _, s := range p.Sizes {
		if s == 0 {
			empty = 1
		}
	}
	for i, a := range p.Arrival {
		if a != i {
			reordered = 1
		}
	}
	multi := 0
	if p.Workers > 1 {
		multi = 1
	}
	return fmt.Sprintf("[empty=%d,reordered=%d,multiworker=%d]", empty, reordered, multi)
}

func checkWriterOutput(rc *RunCtx, prop string, p writerPlan, raw []byte) {
	kind := wkNames[p.Kind]
	text := raw
	if p.Compressed {
		var err error
		text, err = gunzip(raw)
		if err != nil {
			rc.Violate(prop+"/"+kind+"/bad-gzip-stream", "output is not a complete gzip stream: %v (%d bytes)", err, len(raw))
			return
		}
	}
	full := p // every record, for what the formatter under test makes of each batch
	if p.SkipEmpty {
		var kept []Rec
		for _, r := range p.Recs {
			if r.Seq != "" {
				kept = append(kept, r)
			}
		}
		p.Recs = kept
	}
	ids := idsOf(p.Recs)
	switch p.Kind {
	case wkChunk, wkFasta, wkFastq, wkAuto:
		exp := expectedText(full)
		if !bytes.Equal(text, exp) {
			rc.Violate(prop+"/"+kind+"/bytes-differ"+arrivalShape(p),
				"output (%d bytes) is not the in-order concatenation of the batches (%d bytes); arrival %s sizes %v\n got: %q\n want: %q",
				len(text), len(exp), permString(p.Arrival), p.Sizes, clip(string(text), 300), clip(string(exp), 300))
			return
		}
		if p.Kind != wkChunk {
			got := parseFastx(text, p.Kind == wkFastq)
			if !equalStrings(got, ids) {
				rc.Violate(prop+"/"+kind+"/records-differ"+arrivalShape(p), "re-parsed ids: %s", firstDiff(got, ids))
				return
			}
			// the text, read back by the harness' own parser, is the records (the byte
			// comparison above uses the formatter under test for its expectation)
			if p.Giant == 0 {
				back, err := parseObiFastx(text)
				if err != nil {
					rc.Violate(prop+"/"+kind+"/not-well-formed"+arrivalShape(p), "the output cannot be read back: %v\n%q", err, clip(string(text), 400))
					return
				}
				gv, ev := make([]string, len(back)), make([]string, len(p.Recs))
				for i, b := range back {
					gv[i] = irecOfParsed(b).canon()
				}
				for i, r := range p.Recs {
					ev[i] = irecOf(r).canon()
				}
				if !equalStrings(gv, ev) {
					rc.Violate(prop+"/"+kind+"/content-differs"+arrivalShape(p), "records read back from the output: %s", firstDiff(gv, ev))
				}
			}
		}
	case wkJSON:
		var arr []map[string]any
		dec := json.NewDecoder(bytes.NewReader(text))
		if err := dec.Decode(&arr); err != nil {
			rc.Violate(prop+"/json/invalid-array"+arrivalShape(p), "output is not one valid JSON array: %v; arrival %s sizes %v\n%q",
				err, permString(p.Arrival), p.Sizes, clip(string(text), 400))
			return
		}
		if dec.More() {
			rc.Violate(prop+"/json/trailing-data"+arrivalShape(p), "data after the JSON array")
			return
		}
		got := []string{}
		for _, o := range arr {
			got = append(got, fmt.Sprint(o["id"]))
		}
		if !equalStrings(got, ids) {
			rc.Violate(prop+"/json/records-differ"+arrivalShape(p), "ids in the array: %s; arrival %s sizes %v", firstDiff(got, ids), permString(p.Arrival), p.Sizes)
			return
		}
		// every object carries its record: nucleotides, qualities, annotations, definition
		gotFull, wantFull := []string{}, []string{}
		for _, o := range arr {
			g := irec{ID: fmt.Sprint(o["id"]), Annot: map[string]string{}}
			if v, ok := o["sequence"]; ok {
				g.Seq = fmt.Sprint(v)
			}
			if v, ok := o["qualities"]; ok {
				g.Qual = fmt.Sprint(v)
			}
			if a, ok := o["annotations"].(map[string]any); ok {
				for k, v := range a {
					g.Annot[k] = fmt.Sprint(v)
				}
			}
			gotFull = append(gotFull, g.canon())
		}
		for _, r := range p.Recs {
			wantFull = append(wantFull, irecOf(r).canon())
		}
		if !equalStrings(gotFull, wantFull) {
			rc.Violate(prop+"/json/objects-differ"+arrivalShape(p), "content of the objects: %s", firstDiff(gotFull, wantFull))
		}
	case wkCSV:
		if p.N == 0 {
			return // the statement covers streams of at least one batch
		}
		rd := csv.NewReader(bytes.NewReader(text))
		rd.FieldsPerRecord = -1
		rows, err := rd.ReadAll()
		if err != nil {
			rc.Violate(prop+"/csv/unparsable"+arrivalShape(p), "%v", err)
			return
		}
		if p.CSVCols != 0 {
			checkCSVColumns(rc, prop, p, rows)
			return
		}
		if len(rows) == 0 || len(rows[0]) < 2 || rows[0][0] != "id" || rows[0][len(rows[0])-1] != "sequence" || (!p.CSVAuto && len(rows[0]) != 2) {
			first := "<no row>"
			if len(rows) > 0 {
				first = strings.Join(rows[0], ",")
			}
			rc.Violate(prop+"/csv/header"+arrivalShape(p), "first row is %q, expected the header id,sequence; arrival %s sizes %v", first, permString(p.Arrival), p.Sizes)
			return
		}
		got := []string{}
		for _, r := range rows[1:] {
			got = append(got, r[0])
		}
		if !equalStrings(got, ids) {
			rc.Violate(prop+"/csv/records-differ"+arrivalShape(p), "rows: %s; arrival %s sizes %v", firstDiff(got, ids), permString(p.Arrival), p.Sizes)
		}
	}
}

// checkCSVColumns: with the optional columns on, the header names them in the documented order
// and every cell is the value of its record (whatever quoting the value needs).
func checkCSVColumns(rc *RunCtx, prop string, p writerPlan, rows [][]string) {
	want := [][]string{}
	head := []string{"id"}
	if p.CSVCols&1 != 0 {
		head = append(head, "count")
	}
	if p.CSVCols&2 != 0 {
		head = append(head, "definition")
	}
	if p.CSVCols&4 != 0 {
		head = append(head, "sample")
	}
	head = append(head, "sequence")
	if p.CSVCols&8 != 0 {
		head = append(head, "quality")
	}
	want = append(want, head)
	for _, r := range p.Recs {
		row := []string{r.ID}
		if p.CSVCols&1 != 0 {
			c := 1
			if v, ok := r.Annot["count"]; ok {
				c = v.(int)
			}
			row = append(row, fmt.Sprint(c))
		}
		if p.CSVCols&2 != 0 {
			row = append(row, r.Def)
		}
		if p.CSVCols&4 != 0 {
			v := "NA"
			if x, ok := r.Annot["sample"]; ok {
				v = fmt.Sprint(x)
			}
			row = append(row, v)
		}
		row = append(row, r.Seq)
		if p.CSVCols&8 != 0 {
			if r.Qual != nil {
				q := make([]byte, len(r.Qual))
				for i, v := range r.Qual {
					q[i] = v + 33
				}
				row = append(row, string(q))
			} else {
				row = append(row, "NA")
			}
		}
		want = append(want, row)
	}
	flat := func(rs [][]string) []string {
		out := make([]string, len(rs))
		for i, r := range rs {
			out[i] = strings.Join(r, "\x1f")
		}
		return out
	}
	if !equalStrings(flat(rows), flat(want)) {
		rc.Violate(prop+"/csv/cells-differ"+arrivalShape(p), "columns %04b: %s; arrival %s sizes %v", p.CSVCols, firstDiff(flat(rows), flat(want)), permString(p.Arrival), p.Sizes)
	}
}

func runC04(rc *RunCtx) {
	maxN := 7
	if rc.Thorough() {
		maxN = 12
	}
	p := drawWriterPlan(rc.Plan, maxN, false)
	if rc.Thorough() && rc.Plan.Choose(3000) == 0 {
		// more batches than a 16-bit counter can number (thorough tier only: about a minute)
		t := rc.Plan
		p = writerPlan{Kind: []int{wkJSON, wkCSV, wkFasta}[t.Choose(3)], N: 65537 + t.Choose(300), Workers: 1 + t.Choose(2)}
		p.Sizes = make([]int, p.N)
		p.Arrival = make([]int, p.N)
		p.Recs = make([]Rec, p.N)
		for i := 0; i < p.N; i++ {
			p.Sizes[i], p.Arrival[i] = 1, i
			p.Recs[i] = Rec{ID: fmt.Sprintf("m%05d", i), Seq: "acgt"}
		}
		rc.Probe("more_than_65536_batches")
	}
	if p.Kind != wkChunk && p.Giant == 0 && p.N >= 1 && p.N < 1000 && rc.Plan.Choose(6) == 0 {
		runC04File(rc, p)
		return
	}
	rc.Out.Sample = p.sample()
	w := simrt.NewSimWriteCloser()
	res := runWriter(rc, p, w)
	rc.Log("out=%s log=%v closes=%d", sha(string(w.Bytes())), w.Log, w.Closes)
	kind := wkNames[p.Kind]
	reordered := false
	for i, a := range p.Arrival {
		if a != i {
			reordered = true
		}
	}
	if reordered {
		rc.Probe("arrival_reordered")
		if p.N > 0 && p.Arrival[p.N-1] == 0 {
			rc.Probe("batch0_arrived_last")
		}
	}
	for i, s := range p.Sizes {
		if s == 0 {
			rc.Probe("empty_batch")
			if i > 0 && i < p.N-1 {
				rc.Probe("empty_batch_between_nonempty")
			}
		}
	}
	if p.Giant > 0 {
		rc.Probe("batch_larger_than_8MB_next_to_small_ones")
	}
	rc.Out.Nontrivial = p.N >= 2 && (reordered || p.Workers > 1)
	rc.Out.Key = fmt.Sprintf("%s/%v/%s/w%d/z%v/%s", kind, p.Sizes, permString(p.Arrival), p.Workers, p.Compressed, res.Sig)
	if !rc.Liveness(res, "C04/"+kind) {
		return
	}
	if res.Exited {
		rc.Violate("C04/"+kind+"/unexpected-exit"+arrivalShape(p), "the writer ended the process on a fault-free output: %s", describeExit(res))
		return
	}
	wantCloses := 1
	if p.DontClose {
		wantCloses = 0 // the stream belongs to the caller; it must still be complete (flushed)
	}
	if p.Kind == wkAuto && p.N == 0 && w.Closes == 0 {
		// WriteSequence on a stream without any batch creates no writer at all: there is no
		// "last batch" after which to close, and the (empty) output is left to its owner
		wantCloses = 0
	}
	if w.Closes != wantCloses {
		rc.Violate("C04/"+kind+"/close-count", "Close called %d times on the output, expected %d", w.Closes, wantCloses)
		return
	}
	if w.WriteAfterClose > 0 {
		rc.Violate("C04/"+kind+"/write-after-close", "%d writes after Close", w.WriteAfterClose)
		return
	}
	if p.Kind == wkAuto && p.N == 0 {
		if len(w.Bytes()) != 0 {
			rc.Violate("C04/auto/bytes-differ"+arrivalShape(p), "%d bytes written for a stream without any batch", len(w.Bytes()))
		}
		return
	}
	checkWriterOutput(rc, "C04", p, w.Bytes())
}

// runC04File drives the ...ToFile entry points on a real file of the run's private directory:
// a new file, a file left by an earlier run (longer or shorter than what is written now), or
// the same with the append option.
func runC04File(rc *RunCtx, p writerPlan) {
	t := rc.Plan
	p.ToFile = 1 + t.Choose(4)
	p.DontClose = false
	if p.ToFile == 4 && (p.Kind == wkJSON || p.Kind == wkCSV) {
		p.ToFile = 2 // appending to an array or below a header line has no stated meaning
	}
	if p.ToFile == 4 {
		p.Compressed = false
	}
	rc.Out.Sample = p.sample()
	path := filepath.Join(rc.Dir, fmt.Sprintf("c04-%d.out", rc.Index))
	defer os.Remove(path)
	var stale []byte
	switch p.ToFile {
	case 2, 4:
		staleFile(t, path, 20000)
		stale, _ = os.ReadFile(path)
	case 3:
		stale = []byte(">x\nac\n")
		os.WriteFile(path, stale, 0644)
	}
	rc.Probe([]string{"", "to_new_file", "to_file_left_by_a_longer_run", "to_file_left_by_a_shorter_run", "append_to_existing_file"}[p.ToFile])
	batches := makeBatches(p.Recs, p.Sizes, "sim")
	opts := append(writerOptions(p), obiformats.OptionsAppendFile(p.ToFile == 4))
	res := rc.Sim(SimOpts{YieldDensity: rc.Sched.Choose(4)}, func() {
		it := inject(batches, p.Arrival)
		var out obiiter.IBioSequence
		var err error
		switch p.Kind {
		case wkFasta:
			out, err = obiformats.WriteFastaToFile(it, path, opts...)
		case wkFastq:
			out, err = obiformats.WriteFastqToFile(it, path, opts...)
		case wkJSON:
			out, err = obiformats.WriteJSONToFile(it, path, opts...)
		case wkCSV:
			out, err = obiformats.WriteCSVToFile(it, path, opts...)
		case wkAuto:
			out, err = obiformats.WriteSequencesToFile(it, path, opts...)
		}
		if err != nil {
			panic(err)
		}
		out.Consume()
		obiiter.WaitForLastPipe()
	})
	kind := wkNames[p.Kind]
	rc.Out.Nontrivial = p.N >= 2
	rc.Out.Key = fmt.Sprintf("file%d/%s/%v/%s/w%d/z%v/%s", p.ToFile, kind, p.Sizes, permString(p.Arrival), p.Workers, p.Compressed, res.Sig)
	if !rc.Liveness(res, "C04/to-file/"+kind) {
		return
	}
	if res.Exited {
		rc.Violate("C04/to-file/"+kind+"/unexpected-exit", "the writer ended the process on a fault-free output file: %s", describeExit(res))
		return
	}
	raw, err := os.ReadFile(path)
	if err != nil {
		rc.Violate("C04/to-file/"+kind+"/no-file", "%v", err)
		return
	}
	rc.Log("file=%s", sha(string(raw)))
	if p.ToFile == 4 {
		if !bytes.HasPrefix(raw, stale) {
			rc.Violate("C04/to-file/"+kind+"/append-damaged-existing-content", "append mode: the %d bytes already in the file are not at the head of the result (%d bytes)", len(stale), len(raw))
			return
		}
		raw = raw[len(stale):]
	}
	checkWriterOutput(rc, "C04/to-file", p, raw)
}

func init() {
	register(&Property{
		ID:            "C04",
		JobTimeoutSec: 1500,
		Enum:          func(tier string) int { return len(c04CaseList(tier)) },
		Case:          func(tier string, i int) []int32 { return c04CaseList(tier)[i] },
		Random:        func(tier string) int { return map[string]int{"quick": 1500, "thorough": 60000}[tier] },
		Run:           runC04,
		Level:         "exploration",
		Rule:          "enumerated part: every arrival permutation of batch numbers 0..n-1 (n<=5 quick, n<=6 thorough) and every subset of empty batches x every permutation (n<=3 quick, n<=4 thorough), for WriteSeqFileChunk directly and for the FASTA/FASTQ/JSON/CSV writers with one formatting worker (arrival at the writer goroutine = injected order); random part: n<=7 (12 thorough), 1-4 formatting workers, gzip on/off, seeded schedules; 1 run in 6 goes through the ...ToFile entry points on a real file (new, left by a longer or a shorter run, append mode); 1 in 64 has an 8-11 MB batch, 1 in 16 batches of 70-200 KB, 1 in 16 a plan of 18-57 batches; thorough tier: 1 run in 3000 has more than 65536 batches. distinct = distinct (writer, batch sizes, arrival order, workers, compression, schedule signature); non-trivial = >=2 batches and (arrival order not the identity or >=2 formatting workers)",
		Real:          []string{"obiformats.WriteSeqFileChunk", "obiformats.WriteFasta/WriteFastq/WriteJSON/WriteCSV", "obiformats.Format*Batch", "obiutils.CompressStream (bufio + pgzip)", "obiiter iterators (Push/Next/Split/WaitAndClose/WaitForLastPipe)", "obiseq records and pools"},
		Stub:          []string{"output endpoint (simrt.SimWriteCloser)", "sync.Mutex/RWMutex/WaitGroup/Pool (simrt equivalents)", "goroutine scheduling (simrt scheduler)", "upstream pipeline (harness injector task)"},
	})
}

// ---------------------------------------------------------------------------
// C18 — a write / flush / close failure is fatal, never followed by a clean return
// ---------------------------------------------------------------------------

// fixed small corpus of the enumerated part (every fault offset k of a ~600-byte output)
func c18FixedPlan(kind int, compressed bool) writerPlan {
	t := simrt.NewTape(0xC18)
	p := writerPlan{Kind: kind, N: 3, Sizes: []int{2, 1, 2}, Arrival: []int{1, 2, 0}, Workers: 2, Compressed: compressed}
	p.Recs = genRecs(t, 5, 0, kind == wkFastq, 40, 90)
	return p
}

const c18MaxK = 760

func c18EnumCount(tier string) int {
	// kinds fasta, fastq, json, csv (+ the chunk writer) x plain/gzip x k in 0..c18MaxK, + close faults
	return (nWriterKinds*2-1)*(c18MaxK+1) + (nWriterKinds*2 - 1)
}

func c18Case(tier string, i int) []int32 {
	per := c18MaxK + 1
	nk := nWriterKinds*2 - 1
	if i >= nk*per {
		v := i - nk*per
		return []int32{2, int32(v)}
	}
	return []int32{1, int32(i / per), int32(i % per)}
}

func variantPlan(v int) writerPlan {
	// v: 0 chunk writer; 1..8 = (kind 1..4) x (plain, gzip)
	if v == 0 {
		return c18FixedPlan(wkChunk, false)
	}
	return c18FixedPlan(1+(v-1)/2, (v-1)%2 == 1)
}

func runC18(rc *RunCtx) {
	t := rc.Plan
	mode := t.Choose(8) // 1 enumerated offset on the fixed corpus, 2 close fault on the fixed corpus, 7 command stage, else random plan
	if mode == 7 {
		if t.Choose(2) == 1 {
			c18FileLimit(rc, t)
		} else {
			c18Command(rc, t)
		}
		return
	}
	var p writerPlan
	w := simrt.NewSimWriteCloser()
	faultKind := "write"
	errName := "injected"
	var controlBytes []byte
	switch mode {
	case 1:
		p = variantPlan(t.Choose(nWriterKinds*2 - 1))
		w.FailAt = t.Choose(c18MaxK + 1)
	case 2:
		p = variantPlan(t.Choose(nWriterKinds*2 - 1))
		w.FailClose = true
		faultKind = "close"
	default:
		maxN := 6
		if rc.Thorough() {
			maxN = 12
		}
		big := t.Choose(3) == 2
		p = drawWriterPlan(t, maxN, big)
		if p.N == 0 {
			p.N, p.Sizes, p.Arrival = 1, []int{1}, []int{0}
			p.Recs = genRecs(t, 1, 0, p.Kind == wkFastq, 3, 70)
		}
		// fault-free control: run separately, so that no relaxation hides an ordinary bug
		cw := simrt.NewSimWriteCloser()
		cres := runWriter(rc, p, cw)
		if !rc.Liveness(cres, "C18/control/"+wkNames[p.Kind]) {
			return
		}
		if cres.Exited {
			rc.Violate("C18/control/"+wkNames[p.Kind]+"/unexpected-exit", "fault-free control run ended the process: %s", describeExit(cres))
			return
		}
		L := len(cw.Bytes())
		switch t.Choose(7) {
		case 0:
			w.FailAt = 0
		case 1:
			w.FailAt = t.Choose(L + 1)
		case 2:
			if L > 0 {
				w.FailAt = L - 1
			} else {
				w.FailAt = 0
			}
		case 3:
			// around a 4 KiB boundary of the bufio layer
			nb := L/4096 + 1
			w.FailAt = 4096*t.Choose(nb+1) + t.Choose(3) - 1
			if w.FailAt < 0 {
				w.FailAt = 0
			}
		case 4:
			w.FailAt = 1
		case 5:
			w.FailClose = true
			faultKind = "close"
		default:
			w.FailAt = t.Choose(L + 1)
		}
		if w.FailAt >= 0 && t.Choose(4) == 3 {
			// the failure does not last: the writes that follow are accepted.  Whatever the
			// writer does about it - give up, or go on - a successful end means that the
			// endpoint holds exactly the fault-free output
			w.Transient = true
			faultKind = "transient write"
			controlBytes = cw.Bytes()
		}
		rc.Probe(fmt.Sprintf("output_size_class_%s", sizeClass(L)))
		// what the endpoint answers: the simulator's own error, or one of the errors a real
		// file, pipe or socket gives (a failure is a failure, whatever its errno)
		errno := t.Choose(len(endpointErrors))
		w.Err = endpointErrors[errno].err
		errName = endpointErrors[errno].name
	}
	sm := p.sample()
	sm["error"] = errName
	sm["fail_at"] = w.FailAt
	sm["fail_close"] = w.FailClose
	rc.Out.Sample = sm
	kind := wkNames[p.Kind]
	gz := "plain"
	if p.Compressed {
		gz = "gzip"
	}
	res := runWriter(rc, p, w)
	rc.Log("fault at=%d close=%v fired=%v/%v accepted=%d writes=%d closes=%d", w.FailAt, w.FailClose, w.Fired, w.FiredClose, len(w.Buf), w.Writes, w.Closes)
	fired := w.Fired || w.FiredClose
	if w.Transient && w.Fired {
		rc.Fault("write_error_transient")
	}
	phase := "close"
	if w.Fired {
		rc.Fault("write_error_" + kind + "_" + gz)
		phase = "later-endpoint-write"
		if firstFailedWrite(w) == 0 {
			phase = "first-endpoint-write"
		}
		rc.Fault("write_error_phase_" + phase)
		rc.Fault("write_error_errno_" + errName)
	} else if w.FiredClose {
		rc.Fault("close_error_errno_" + errName)
		rc.Fault("close_error_" + kind + "_" + gz)
	}
	rc.Out.Nontrivial = fired
	rc.Out.Key = fmt.Sprintf("%s/%s/%s/at%d/%s/%s/%s", kind, gz, faultKind, w.FailAt, phase, permString(p.Arrival), res.Sig)
	if res.StepCap {
		rc.Inconclusive("step cap")
		return
	}
	if res.Deadlock {
		rc.Violate("C18/hang/"+kind+"/"+gz+"/"+phase, "the writer hangs after the injected %s fault: %s", faultKind, strings.Join(res.Blocked, "\n"))
		return
	}
	if res.Panic != "" {
		// a crash is a non-zero exit: reported, not silent
		rc.Probe("fault_led_to_panic")
		return
	}
	if res.Exited && res.ExitCode != 0 {
		rc.Probe("fault_reported_fatal")
		return
	}
	if !fired {
		// the output ended before the fault offset: nothing was injected; the run is a plain C04 run
		rc.Probe("fault_never_reached")
		return
	}
	if w.Transient {
		if bytes.Equal(w.Bytes(), controlBytes) {
			rc.Probe("transient_fault_survived_with_complete_output")
			return
		}
		rc.Violate(fmt.Sprintf("C18/silent-loss/%s/%s/transient-write-fault", kind, gz),
			"one write failed (error %s at offset %d, %d bytes of it accepted), the following ones were accepted, and the writer returned normally with an output of %d bytes that is not the %d-byte fault-free output; fatal messages: %q",
			errName, w.FailAt, 0, len(w.Bytes()), len(controlBytes), res.FatalMsg)
		return
	}
	rc.Violate(fmt.Sprintf("C18/silent-loss/%s/%s/%s", kind, gz, phase),
		"injected %s fault (error "+errName+", fail_at=%d fail_close=%v) but the writer returned normally: endpoint accepted %d bytes in %d writes, Close calls=%d; fatal messages: %q",
		faultKind, w.FailAt, w.FailClose, len(w.Buf), w.Writes, w.Closes, res.FatalMsg)
}

var endpointErrors = []struct {
	name string
	err  error
}{
	{"injected", nil},
	{"EPIPE", &os.PathError{Op: "write", Path: "/dev/stdout", Err: syscall.EPIPE}},
	{"ENOSPC", &os.PathError{Op: "write", Path: "out.fasta", Err: syscall.ENOSPC}},
	{"EIO", &os.PathError{Op: "write", Path: "out.fasta", Err: syscall.EIO}},
	{"EDQUOT", &os.PathError{Op: "write", Path: "out.fasta", Err: syscall.EDQUOT}},
	{"ECONNRESET", &os.PathError{Op: "write", Path: "|1", Err: syscall.ECONNRESET}},
	{"ErrClosedPipe", io.ErrClosedPipe},
	{"ErrShortWrite", io.ErrShortWrite},
}

func firstFailedWrite(w *simrt.SimWriteCloser) int {
	for i, l := range w.Log {
		if strings.Contains(l, "!") {
			return i
		}
	}
	return -1
}

func sizeClass(n int) string {
	switch {
	case n < 4096:
		return "lt4k"
	case n < 65536:
		return "4k-64k"
	default:
		return "gt64k"
	}
}

func init() {
	register(&Property{
		ID:     "C18",
		Enum:   c18EnumCount,
		Case:   c18Case,
		Random: func(tier string) int { return map[string]int{"quick": 1500, "thorough": 80000}[tier] },
		Run:    runC18,
		Level:  "fault_enumeration",
		Rule:   "enumerated part: a write fault (short count + error, sticky) at every absolute byte offset k=0..760 of the output of a fixed 5-record/3-batch corpus, and a Close fault, for WriteSeqFileChunk and the FASTA/FASTQ/JSON/CSV writers, plain and gzip; random part: random corpora (outputs <4 KiB, 4-64 KiB, >64 KiB), arrival orders, 1-4 formatting workers, offsets stratified (0, 1, last byte, 4 KiB boundaries +-1, uniform) and Close faults, each after a separate fault-free control run. distinct = distinct (writer, compression, fault kind, offset, phase at which the endpoint failed, arrival order, schedule signature); non-trivial = the fault actually fired",
		Real:   []string{"obiformats.WriteSeqFileChunk", "obiformats.WriteFasta/WriteFastq/WriteJSON/WriteCSV", "obiutils.CompressStream / Wfile (bufio + pgzip)", "obiiter iterators", "logrus Fatal path (exit captured)"},
		Stub:   []string{"output endpoint (simrt.SimWriteCloser with a fault plan)", "sync primitives and scheduler (simrt)", "process exit (captured as the run's outcome)", "upstream pipeline (harness injector task)"},
	})
}
