package harness

import (
	"bytes"
	"compress/gzip"
	"encoding/csv"
	"encoding/json"
	"fmt"
	"io"
	"strings"

	"git.metabarcoding.org/obitools/obitools4/obitools4/pkg/obiformats"
	"git.metabarcoding.org/obitools/obitools4/obitools4/pkg/obiiter"
	"git.metabarcoding.org/obitools/obitools4/obitools4/pkg/zverif/simrt"
)

// ---------------------------------------------------------------------------
// C04 — writers emit every batch once, in order, well-formed
// C18 — write failures are reported (same workload + a fault plan)
// ---------------------------------------------------------------------------

const (
	wkChunk = iota
	wkFasta
	wkFastq
	wkJSON
	wkCSV
	nWriterKinds
)

var wkNames = []string{"chunkwriter", "fasta", "fastq", "json", "csv"}

type writerPlan struct {
	Kind       int
	N          int
	Sizes      []int
	Arrival    []int
	Workers    int
	Compressed bool
	Recs       []Rec
	LongSeq    bool
}

func (p writerPlan) sample() map[string]any {
	return map[string]any{"writer": wkNames[p.Kind], "batches": p.N, "sizes": p.Sizes, "arrival": permString(p.Arrival),
		"workers": p.Workers, "compressed": p.Compressed, "records": len(p.Recs)}
}

var sizeTable = []int{1, 0, 2, 3}

func drawWriterPlan(t *simrt.Tape, maxN int, big bool) writerPlan {
	var p writerPlan
	p.Kind = t.Choose(nWriterKinds)
	p.N = t.Choose(maxN + 1)
	total := 0
	for i := 0; i < p.N; i++ {
		s := sizeTable[t.Choose(4)]
		p.Sizes = append(p.Sizes, s)
		total += s
	}
	p.Arrival = drawPerm(t, p.N)
	p.Workers = 1 + t.Choose(4)
	if p.Kind != wkChunk {
		p.Compressed = t.Choose(3) == 2
	}
	lo, hi := 3, 70
	if big {
		p.LongSeq = true
		lo, hi = 900, 2500
	}
	p.Recs = genRecs(t, total, 0, p.Kind == wkFastq, lo, hi)
	return p
}

// enumerated cases of C04: every arrival permutation for n <= maxPerm (no empty batch, one
// formatting worker), and every subset of empty batches x every permutation for n <= maxSub.
func c04Cases(tier string) [][]int32 {
	maxPerm, maxSub := 5, 3
	if tier == "thorough" {
		maxPerm, maxSub = 6, 4
	}
	var out [][]int32
	for kind := 0; kind < nWriterKinds; kind++ {
		for n := 0; n <= maxPerm; n++ {
			for _, dv := range allDigitVectors(n) {
				c := []int32{int32(kind), int32(n)}
				for i := 0; i < n; i++ {
					c = append(c, 0) // size 1
				}
				c = append(c, dv...)
				c = append(c, 0, 0) // one worker, not compressed
				out = append(out, c)
			}
		}
		for n := 1; n <= maxSub; n++ {
			for mask := 1; mask < 1<<n; mask++ {
				for _, dv := range allDigitVectors(n) {
					c := []int32{int32(kind), int32(n)}
					for i := 0; i < n; i++ {
						if mask&(1<<i) != 0 {
							c = append(c, 1) // empty
						} else {
							c = append(c, 0)
						}
					}
					c = append(c, dv...)
					c = append(c, 0, 0)
					out = append(out, c)
				}
			}
		}
	}
	return out
}

var c04CaseCache = map[string][][]int32{}

func c04CaseList(tier string) [][]int32 {
	if c, ok := c04CaseCache[tier]; ok {
		return c
	}
	c := c04Cases(tier)
	c04CaseCache[tier] = c
	return c
}

type writerRun struct {
	res  SimResult
	w    *simrt.SimWriteCloser
	plan writerPlan
}

func writerOptions(p writerPlan) []obiformats.WithOption {
	return []obiformats.WithOption{
		obiformats.OptionsParallelWorkers(p.Workers),
		obiformats.OptionCloseFile(),
		obiformats.OptionsCompressed(p.Compressed),
	}
}

func chunkText(i, size int) []byte {
	if size == 0 {
		return nil
	}
	return []byte(strings.Repeat(fmt.Sprintf("chunk%d;", i), size) + "\n")
}

// runWriter executes one writer run under the simulator.
func runWriter(rc *RunCtx, p writerPlan, w *simrt.SimWriteCloser) SimResult {
	batches := makeBatches(p.Recs, p.Sizes, "sim")
	return rc.Sim(SimOpts{}, func() {
		switch p.Kind {
		case wkChunk:
			ch := obiformats.WriteSeqFileChunk(w, true)
			for _, i := range p.Arrival {
				simrt.Send(ch, obiformats.SeqFileChunk{Source: "sim", Raw: bytes.NewBuffer(chunkText(i, p.Sizes[i])), Order: i})
			}
			simrt.Close(ch)
		default:
			it := inject(batches, p.Arrival)
			var out obiiter.IBioSequence
			var err error
			switch p.Kind {
			case wkFasta:
				out, err = obiformats.WriteFasta(it, w, writerOptions(p)...)
			case wkFastq:
				out, err = obiformats.WriteFastq(it, w, writerOptions(p)...)
			case wkJSON:
				out, err = obiformats.WriteJSON(it, w, writerOptions(p)...)
			case wkCSV:
				out, err = obiformats.WriteCSV(it, w, writerOptions(p)...)
			}
			if err != nil {
				panic(err)
			}
			out.Consume()
		}
		obiiter.WaitForLastPipe()
	})
}

func gunzip(b []byte) ([]byte, error) {
	zr, err := gzip.NewReader(bytes.NewReader(b))
	if err != nil {
		return nil, err
	}
	return io.ReadAll(zr)
}

// expectedText is the concatenation, in batch-number order, of the text of each batch.
func expectedText(p writerPlan) []byte {
	var buf bytes.Buffer
	batches := makeBatches(p.Recs, p.Sizes, "sim")
	for i, b := range batches {
		switch p.Kind {
		case wkChunk:
			buf.Write(chunkText(i, p.Sizes[i]))
		case wkFasta:
			buf.Write(obiformats.FormatFastaBatch(b, obiformats.FormatFastSeqJsonHeader, false).Bytes())
		case wkFastq:
			buf.Write(obiformats.FormatFastqBatch(b, obiformats.FormatFastSeqJsonHeader, false).Bytes())
		}
	}
	return buf.Bytes()
}

// parseFastx is the harness' own minimal reader of what the writers emit.
func parseFastx(text []byte, fastq bool) []string {
	var ids []string
	lines := strings.Split(string(text), "\n")
	if fastq {
		for i := 0; i+3 < len(lines); i += 4 {
			if !strings.HasPrefix(lines[i], "@") {
				return append(ids, "<malformed:"+clip(lines[i], 30)+">")
			}
			ids = append(ids, strings.Fields(lines[i][1:])[0])
		}
		return ids
	}
	for _, l := range lines {
		if strings.HasPrefix(l, ">") {
			ids = append(ids, strings.Fields(l[1:])[0])
		}
	}
	return ids
}

func arrivalShape(p writerPlan) string {
	empty, reordered := 0, 0
	for _, s := range p.Sizes {
		if s == 0 {
			empty = 1
		}
	}
	for i, a := range p.Arrival {
		if a != i {
			reordered = 1
		}
	}
	multi := 0
	if p.Workers > 1 {
		multi = 1
	}
	return fmt.Sprintf("[empty=%d,reordered=%d,multiworker=%d]", empty, reordered, multi)
}

func checkWriterOutput(rc *RunCtx, prop string, p writerPlan, raw []byte) {
	kind := wkNames[p.Kind]
	text := raw
	if p.Compressed {
		var err error
		text, err = gunzip(raw)
		if err != nil {
			rc.Violate(prop+"/"+kind+"/bad-gzip-stream", "output is not a complete gzip stream: %v (%d bytes)", err, len(raw))
			return
		}
	}
	ids := idsOf(p.Recs)
	switch p.Kind {
	case wkChunk, wkFasta, wkFastq:
		exp := expectedText(p)
		if !bytes.Equal(text, exp) {
			rc.Violate(prop+"/"+kind+"/bytes-differ"+arrivalShape(p),
				"output (%d bytes) is not the in-order concatenation of the batches (%d bytes); arrival %s sizes %v\n got: %q\n want: %q",
				len(text), len(exp), permString(p.Arrival), p.Sizes, clip(string(text), 300), clip(string(exp), 300))
			return
		}
		if p.Kind != wkChunk {
			got := parseFastx(text, p.Kind == wkFastq)
			if !equalStrings(got, ids) {
				rc.Violate(prop+"/"+kind+"/records-differ"+arrivalShape(p), "re-parsed ids: %s", firstDiff(got, ids))
			}
		}
	case wkJSON:
		var arr []map[string]any
		dec := json.NewDecoder(bytes.NewReader(text))
		if err := dec.Decode(&arr); err != nil {
			rc.Violate(prop+"/json/invalid-array"+arrivalShape(p), "output is not one valid JSON array: %v; arrival %s sizes %v\n%q",
				err, permString(p.Arrival), p.Sizes, clip(string(text), 400))
			return
		}
		if dec.More() {
			rc.Violate(prop+"/json/trailing-data"+arrivalShape(p), "data after the JSON array")
			return
		}
		got := []string{}
		for _, o := range arr {
			got = append(got, fmt.Sprint(o["id"]))
		}
		if !equalStrings(got, ids) {
			rc.Violate(prop+"/json/records-differ"+arrivalShape(p), "ids in the array: %s; arrival %s sizes %v", firstDiff(got, ids), permString(p.Arrival), p.Sizes)
		}
	case wkCSV:
		if p.N == 0 {
			return // the statement covers streams of at least one batch
		}
		rd := csv.NewReader(bytes.NewReader(text))
		rd.FieldsPerRecord = -1
		rows, err := rd.ReadAll()
		if err != nil {
			rc.Violate(prop+"/csv/unparsable"+arrivalShape(p), "%v", err)
			return
		}
		if len(rows) == 0 || len(rows[0]) != 2 || rows[0][0] != "id" || rows[0][1] != "sequence" {
			first := "<no row>"
			if len(rows) > 0 {
				first = strings.Join(rows[0], ",")
			}
			rc.Violate(prop+"/csv/header"+arrivalShape(p), "first row is %q, expected the header id,sequence; arrival %s sizes %v", first, permString(p.Arrival), p.Sizes)
			return
		}
		got := []string{}
		for _, r := range rows[1:] {
			got = append(got, r[0])
		}
		if !equalStrings(got, ids) {
			rc.Violate(prop+"/csv/records-differ"+arrivalShape(p), "rows: %s; arrival %s sizes %v", firstDiff(got, ids), permString(p.Arrival), p.Sizes)
		}
	}
}

func runC04(rc *RunCtx) {
	maxN := 7
	if rc.Thorough() {
		maxN = 12
	}
	p := drawWriterPlan(rc.Plan, maxN, false)
	rc.Out.Sample = p.sample()
	w := simrt.NewSimWriteCloser()
	res := runWriter(rc, p, w)
	rc.Log("out=%s log=%v closes=%d", sha(string(w.Bytes())), w.Log, w.Closes)
	kind := wkNames[p.Kind]
	reordered := false
	for i, a := range p.Arrival {
		if a != i {
			reordered = true
		}
	}
	if reordered {
		rc.Probe("arrival_reordered")
		if p.N > 0 && p.Arrival[p.N-1] == 0 {
			rc.Probe("batch0_arrived_last")
		}
	}
	for i, s := range p.Sizes {
		if s == 0 {
			rc.Probe("empty_batch")
			if i > 0 && i < p.N-1 {
				rc.Probe("empty_batch_between_nonempty")
			}
		}
	}
	rc.Out.Nontrivial = p.N >= 2 && (reordered || p.Workers > 1)
	rc.Out.Key = fmt.Sprintf("%s/%v/%s/w%d/z%v/%s", kind, p.Sizes, permString(p.Arrival), p.Workers, p.Compressed, res.Sig)
	if !rc.Liveness(res, "C04/"+kind) {
		return
	}
	if res.Exited {
		rc.Violate("C04/"+kind+"/unexpected-exit"+arrivalShape(p), "the writer ended the process on a fault-free output: %s", describeExit(res))
		return
	}
	if w.Closes != 1 {
		rc.Violate("C04/"+kind+"/close-count", "Close called %d times on the output, expected exactly once", w.Closes)
		return
	}
	if w.WriteAfterClose > 0 {
		rc.Violate("C04/"+kind+"/write-after-close", "%d writes after Close", w.WriteAfterClose)
		return
	}
	checkWriterOutput(rc, "C04", p, w.Bytes())
}

func init() {
	register(&Property{
		ID:     "C04",
		Enum:   func(tier string) int { return len(c04CaseList(tier)) },
		Case:   func(tier string, i int) []int32 { return c04CaseList(tier)[i] },
		Random: func(tier string) int { return map[string]int{"quick": 1500, "thorough": 60000}[tier] },
		Run:    runC04,
		Level:  "exploration",
		Rule:   "enumerated part: every arrival permutation of batch numbers 0..n-1 (n<=5 quick, n<=6 thorough) and every subset of empty batches x every permutation (n<=3 quick, n<=4 thorough), for WriteSeqFileChunk directly and for the FASTA/FASTQ/JSON/CSV writers with one formatting worker (arrival at the writer goroutine = injected order); random part: n<=7 (12 thorough), 1-4 formatting workers, gzip on/off, seeded schedules. distinct = distinct (writer, batch sizes, arrival order, workers, compression, schedule signature); non-trivial = >=2 batches and (arrival order not the identity or >=2 formatting workers)",
		Real:   []string{"obiformats.WriteSeqFileChunk", "obiformats.WriteFasta/WriteFastq/WriteJSON/WriteCSV", "obiformats.Format*Batch", "obiutils.CompressStream (bufio + pgzip)", "obiiter iterators (Push/Next/Split/WaitAndClose/WaitForLastPipe)", "obiseq records and pools"},
		Stub:   []string{"output endpoint (simrt.SimWriteCloser)", "sync.Mutex/RWMutex/WaitGroup/Pool (simrt equivalents)", "goroutine scheduling (simrt scheduler)", "upstream pipeline (harness injector task)"},
	})
}
