package harness

import (
	"encoding/json"
	"fmt"
	"os"
	"path/filepath"
	"sort"
	"strconv"
	"strings"

	"git.metabarcoding.org/obitools/obitools4/obitools4/pkg/zverif/simrt"
)

// ---------------------------------------------------------------------------
// C13 — obiclean graph is exact (d=1) and identical for any worker count
// ---------------------------------------------------------------------------

type cleanSeq struct {
	ID     string
	Seq    string
	Counts map[string]int // per sample
	Scalar bool           // written with a scalar "sample" attribute instead of a merged_sample map
}

func oneDiff(a, b string) bool {
	if len(a) == len(b) {
		d := 0
		for i := range a {
			if a[i] != b[i] {
				d++
			}
		}
		return d == 1
	}
	if len(a) > len(b) {
		a, b = b, a
	}
	if len(b)-len(a) != 1 {
		return false
	}
	for i := 0; i < len(b); i++ {
		if b[:i]+b[i+1:] == a {
			return true
		}
	}
	return false
}

func variantOf(t *simrt.Tape, s string) string {
	b := []byte(s)
	switch t.Choose(3) {
	case 0: // substitution
		p := t.Choose(len(b))
		b[p] = dna[(strings.IndexByte(dna, b[p])+1+t.Choose(3))%4]
		return string(b)
	case 1: // deletion
		if len(b) > 4 {
			p := t.Choose(len(b))
			return string(b[:p]) + string(b[p+1:])
		}
		fallthrough
	default: // insertion
		p := t.Choose(len(b) + 1)
		return string(b[:p]) + string(dna[t.Choose(4)]) + string(b[p:])
	}
}

// drawStarCase: one sample, a centre with 255-257 one-difference sons (a counter of sons kept on
// eight bits wraps at 256), the most abundant son being itself abundant, and more sequences in
// the sample than a dispatcher handing out blocks of lines to 2-8 workers sends one at a time.
func drawStarCase(t *simrt.Tape) []cleanSeq {
	centre := genSeq(t, 95, 110, dna)
	nsons := []int{256, 255, 256, 257}[t.Choose(4)]
	seen := map[string]bool{centre: true}
	out := []cleanSeq{{ID: "c000", Seq: centre, Counts: map[string]int{"smp0": 5000}}}
	for p := 0; len(out) <= nsons && p < len(centre); p++ {
		for k := 1; k < 4 && len(out) <= nsons; k++ {
			b := []byte(centre)
			b[p] = dna[(strings.IndexByte(dna, b[p])+k)%4]
			if !seen[string(b)] {
				seen[string(b)] = true
				c := 1 + t.Choose(20)
				if len(out) == 1 {
					c = 4000 // the second most abundant sequence of the sample is a son
				}
				out = append(out, cleanSeq{ID: fmt.Sprintf("c%03d", len(out)), Seq: string(b), Counts: map[string]int{"smp0": c}})
			}
		}
	}
	// a few unrelated sequences and second-level variants
	for k := t.Choose(6); k > 0; k-- {
		s := genSeq(t, 95, 110, dna)
		if !seen[s] {
			seen[s] = true
			out = append(out, cleanSeq{ID: fmt.Sprintf("c%03d", len(out)), Seq: s, Counts: map[string]int{"smp0": 1 + t.Choose(30)}})
		}
	}
	return out
}

func drawCleanCase(t *simrt.Tape, thorough bool) []cleanSeq {
	if t.Choose(16) == 7 {
		return drawStarCase(t)
	}
	maxSeq := 14
	if thorough {
		maxSeq = 25
	}
	nsamples := 1 + t.Choose(3)
	samples := []string{}
	// one data set in four has not been dereplicated: every record belongs to one sample, named
	// by a scalar attribute - a word, or a number (a date, a plate position) as JSON writes it
	scalar := t.Choose(4) == 3
	numeric := scalar && t.Choose(2) == 1
	for i := 0; i < nsamples; i++ {
		if numeric {
			samples = append(samples, []string{"20240103", "20240104", "7"}[i])
		} else {
			samples = append(samples, fmt.Sprintf("smp%d", i))
		}
	}
	seen := map[string]bool{}
	var seqs []string
	add := func(s string) {
		if !seen[s] && len(s) >= 4 {
			seen[s] = true
			seqs = append(seqs, s)
		}
	}
	nseeds := 1 + t.Choose(3)
	for i := 0; i < nseeds; i++ {
		add(genSeq(t, 8, 30, dna))
	}
	target := 3 + t.Choose(maxSeq-2)
	for tries := 0; len(seqs) < target && tries < 200; tries++ {
		switch t.Choose(6) {
		case 0:
			add(genSeq(t, 8, 30, dna)) // unrelated
		default:
			add(variantOf(t, seqs[t.Choose(len(seqs))])) // star or chain
		}
	}
	// motif: a sequence X with two fathers of very different abundance and sons of its own
	// whose added weight exceeds the smaller father's (the shape on which a ratio filter
	// applied to weights instead of counts removes a true link)
	fixed := map[string]int{}
	if t.Choose(3) == 0 && len(seqs) > 0 {
		x := seqs[t.Choose(len(seqs))]
		fixed[x] = 10
		for k, c := range []int{12, 200} {
			for tries := 0; tries < 20; tries++ {
				f := variantOf(t, x)
				if !seen[f] {
					add(f)
					fixed[f] = c + k
					break
				}
			}
		}
		for k := 0; k < 3; k++ {
			for tries := 0; tries < 20; tries++ {
				sn := variantOf(t, x)
				if !seen[sn] {
					add(sn)
					fixed[sn] = 8 - k
					break
				}
			}
		}
	}
	out := []cleanSeq{}
	for i, s := range seqs {
		c := cleanSeq{ID: fmt.Sprintf("c%03d", i), Seq: s, Counts: map[string]int{}}
		if fc, ok := fixed[s]; ok {
			for _, smp := range samples {
				c.Counts[smp] = fc
			}
			out = append(out, c)
			continue
		}
		for _, smp := range samples {
			if t.Choose(5) == 0 && len(c.Counts) > 0 {
				continue
			}
			switch t.Choose(4) {
			case 0:
				c.Counts[smp] = 1 + t.Choose(3)
			case 1:
				c.Counts[smp] = 5 // ties in abundance
			case 2:
				c.Counts[smp] = 1 + t.Choose(12)
			default:
				c.Counts[smp] = 10 + t.Choose(40)
			}
		}
		if len(c.Counts) == 0 {
			c.Counts[samples[0]] = 1
		}
		out = append(out, c)
	}
	if scalar {
		for i := range out {
			keep := samples[t.Choose(len(samples))]
			v, ok := out[i].Counts[keep]
			if !ok {
				v = 1 + t.Choose(9)
			}
			out[i].Counts = map[string]int{keep: v}
			out[i].Scalar = true
		}
	}
	return out
}

func cleanInput(seqs []cleanSeq) []byte {
	var sb strings.Builder
	for _, s := range seqs {
		tot := 0
		for _, v := range s.Counts {
			tot += v
		}
		r := Rec{ID: s.ID, Seq: s.Seq, Annot: map[string]any{"count": tot, "merged_sample": s.Counts}}
		if s.Scalar {
			for name := range s.Counts {
				var v any = name
				if n, err := strconv.Atoi(name); err == nil {
					v = n
				}
				r.Annot = map[string]any{"count": tot, "sample": v}
			}
		}
		sb.WriteString(">" + s.ID + " " + jsonHeader(r) + "\n" + s.Seq + "\n")
	}
	return []byte(sb.String())
}

// expectedStatus is the brute-force one-difference graph of one sample.
func expectedStatus(seqs []cleanSeq, sample string) map[string]string {
	st := map[string]string{}
	for _, a := range seqs {
		ca, ok := a.Counts[sample]
		if !ok {
			continue
		}
		hasFather, hasSon := false, false
		for _, b := range seqs {
			cb, ok := b.Counts[sample]
			if !ok || a.ID == b.ID || !oneDiff(a.Seq, b.Seq) {
				continue
			}
			if cb > ca {
				hasFather = true
			}
			if cb < ca {
				hasSon = true
			}
		}
		switch {
		case hasFather:
			st[a.ID] = "i"
		case hasSon:
			st[a.ID] = "h"
		default:
			st[a.ID] = "s"
		}
	}
	return st
}

func canonAnnot(v any) string {
	b, _ := json.Marshal(v)
	return string(b)
}

// cleanView extracts everything obiclean writes about a record.
func cleanView(r parsedRec) string {
	keys := []string{}
	for k := range r.Annot {
		if strings.HasPrefix(k, "obiclean_") {
			keys = append(keys, k)
		}
	}
	sort.Strings(keys)
	parts := []string{}
	for _, k := range keys {
		parts = append(parts, k+"="+canonAnnot(r.Annot[k]))
	}
	return strings.Join(parts, ";")
}

func checkMutation(son, father, mut string) string {
	var from, to byte
	var pos int
	if n, _ := fmt.Sscanf(mut, "(%c)->(%c)@%d", &from, &to, &pos); n != 3 {
		return "unparsable mutation " + mut
	}
	p := pos - 1
	switch {
	case from != '-' && to != '-':
		if len(son) != len(father) || p < 0 || p >= len(son) || father[p] != from || son[p] != to || son[:p]+string(from)+son[p+1:] != father {
			return fmt.Sprintf("substitution %s does not turn %s into %s", mut, father, son)
		}
	case to == '-': // base of the father absent from the son
		ok := false
		for q := 0; q < len(father); q++ {
			if father[q] == from && father[:q]+father[q+1:] == son {
				ok = true
			}
		}
		if !ok {
			return fmt.Sprintf("deletion %s does not turn %s into %s", mut, father, son)
		}
	case from == '-':
		ok := false
		for q := 0; q < len(son); q++ {
			if son[q] == to && son[:q]+son[q+1:] == father {
				ok = true
			}
		}
		if !ok {
			return fmt.Sprintf("insertion %s does not turn %s into %s", mut, father, son)
		}
	}
	return ""
}

func runC13(rc *RunCtx) {
	t := rc.Plan
	seqs := drawCleanCase(t, rc.Thorough())
	dist := []int{1, 1, 2, 3}[t.Choose(4)]
	ratio := []string{"", "", "0.5", "0.1"}[t.Choose(4)]
	if len(seqs) > 200 {
		dist, ratio = 1, "" // the star data set is judged against the exact one-difference graph
	}
	onlyHead := t.Choose(5) == 4
	p := drawParCfg(t, len(seqs))
	p.MaxCPU = []int{2, 3, 4, 8, 1, 6, -1}[t.Choose(7)]
	p.Yield = 1 + t.Choose(4)
	opts := []string{}
	if dist != 1 {
		opts = append(opts, "-d", fmt.Sprint(dist))
	}
	if ratio != "" {
		opts = append(opts, "-r", ratio)
	}
	if onlyHead {
		opts = append(opts, "-H")
	}
	input := cleanInput(seqs)
	// size of the batches of obiclean's internal annotation stage (hard-wired to 1000 in the
	// shipped code): with the default no data set of the harness spans two batches
	annotBatch := []int{0, 1, 2, 3, 7}[t.Choose(5)]
	run := func(tag string, cfg parCfg) (*CmdOutcome, []parsedRec, string) {
		dir := filepath.Join(rc.Dir, fmt.Sprintf("c%d-%s", rc.Index, tag))
		os.MkdirAll(dir, 0755)
		defer cleanup(dir)
		in := filepath.Join(dir, "in.fasta")
		os.WriteFile(in, input, 0644)
		args := cfg.cpuArgs()
		args = append(args, opts...)
		args = append(args, "-o", filepath.Join(dir, "out.fasta"), in)
		spec := CmdSpec{Name: "obiclean", Args: args, Dir: dir, PoolPolicy: cfg.Pool, YieldDensity: cfg.Yield, StderrNull: cfg.ErrNull, Policy: cfg.Policy}
		if tag == "test" && annotBatch > 0 {
			spec.Knobs = map[string]int{"batch": annotBatch}
		}
		co := rc.RunCmd(spec)
		raw, _ := os.ReadFile(filepath.Join(dir, "out.fasta"))
		recs, err := parseObiFasta(raw)
		if err != nil {
			return co, nil, err.Error()
		}
		return co, recs, ""
	}
	rc.Out.Sample = map[string]any{"sequences": len(seqs), "options": opts, "config": p.String(), "annotation_batch": annotBatch}
	settings := fmt.Sprintf("d=%d,r=%s", dist, ratio)
	ref, refRecs, perr := run("ref", parCfg{MaxCPU: 2, BatchSize: 2000, Pool: 3, Yield: 0, Policy: 1 + simrt.PolLowest})
	if !rc.cmdMustSucceed(ref, "C13/reference", "obiclean reference run "+strings.Join(opts, " ")) {
		return
	}
	if perr != "" {
		rc.Violate("C13/reference/unparsable-output", "%s", perr)
		return
	}
	test, testRecs, perr := run("test", p)
	rc.Out.Nontrivial = test.Contended > 0
	rc.Out.Key = fmt.Sprintf("%v/%s/%s", opts, p, test.Sig)
	for k, v := range test.Probes {
		_ = k
		_ = v
	}
	if !rc.cmdMustSucceed(test, "C13", fmt.Sprintf("obiclean %v (%s)", opts, p)) {
		return
	}
	if perr != "" {
		rc.Violate("C13/unparsable-output", "%s", perr)
		return
	}
	// (0) the counts written on a record are those of its own status map
	for _, rs := range [][]parsedRec{refRecs, testRecs} {
		for _, r := range rs {
			st, _ := r.Annot["obiclean_status"].(map[string]any)
			cnt := map[string]int{}
			for _, v := range st {
				cnt[fmt.Sprint(v)]++
			}
			want := map[string]int{"obiclean_headcount": cnt["h"], "obiclean_internalcount": cnt["i"], "obiclean_singletoncount": cnt["s"], "obiclean_samplecount": len(st)}
			for _, k := range sortedKeys(want) {
				if v, ok := annotInt(r.Annot[k]); !ok || v != want[k] {
					rc.Violate("C13/counts-not-those-of-the-status", "obiclean %v (%s): record %s has %s=%v but its obiclean_status is %v", opts, p, r.ID, k, r.Annot[k], st)
					return
				}
			}
			if h, ok := r.Annot["obiclean_head"].(bool); ok && h != (cnt["h"]+cnt["s"] > 0) {
				rc.Violate("C13/counts-not-those-of-the-status", "obiclean %v (%s): record %s has obiclean_head=%v but its obiclean_status is %v", opts, p, r.ID, h, st)
				return
			}
		}
	}
	// (2) determinism: everything obiclean writes is identical to the sequential reference
	view := func(rs []parsedRec) map[string]string {
		m := map[string]string{}
		for _, r := range rs {
			m[r.ID] = cleanView(r)
		}
		return m
	}
	vr, vt := view(refRecs), view(testRecs)
	for _, id := range sortedKeys(vr) {
		if vt[id] != vr[id] {
			rc.Violate("C13/depends-on-workers/"+settings, "obiclean %v: record %s differs between (%s) and the 2-worker reference without preemption:\n  test: %s\n  ref : %s",
				opts, id, p, clip(vt[id], 500), clip(vr[id], 500))
			return
		}
	}
	if len(vt) != len(vr) {
		rc.Violate("C13/depends-on-workers/"+settings, "obiclean %v: %d records with (%s), %d in the reference", opts, len(vt), p, len(vr))
		return
	}
	// (1) exactness for the default distance and ratio
	if dist != 1 || ratio != "" {
		return
	}
	rc.Probe("exactness_checked")
	byID := map[string]cleanSeq{}
	for _, s := range seqs {
		byID[s.ID] = s
	}
	samples := map[string]bool{}
	for _, s := range seqs {
		for k := range s.Counts {
			samples[k] = true
		}
	}
	expHead := map[string]bool{}
	expStatus := map[string]map[string]string{}
	for smp := range samples {
		for id, st := range expectedStatus(seqs, smp) {
			if expStatus[id] == nil {
				expStatus[id] = map[string]string{}
			}
			expStatus[id][smp] = st
			if st != "i" {
				expHead[id] = true
			}
		}
	}
	got := map[string]parsedRec{}
	for _, r := range refRecs {
		got[r.ID] = r
	}
	for _, s := range seqs {
		r, ok := got[s.ID]
		if !ok {
			if onlyHead && !expHead[s.ID] {
				continue
			}
			rc.Violate("C13/exactness/record-missing", "record %s is not in the output (options %v)", s.ID, opts)
			return
		}
		if onlyHead && !expHead[s.ID] {
			rc.Violate("C13/exactness/head-filter", "record %s is internal in every sample but was kept by -H", s.ID)
			return
		}
		st, _ := r.Annot["obiclean_status"].(map[string]any)
		gotSt := map[string]string{}
		for k, v := range st {
			gotSt[k] = fmt.Sprint(v)
		}
		if canonAnnot(gotSt) != canonAnnot(expStatus[s.ID]) {
			rc.Violate("C13/exactness/status", "record %s (%s): obiclean_status %s, the one-difference graph says %s", s.ID, s.Seq, canonAnnot(gotSt), canonAnnot(expStatus[s.ID]))
			return
		}
		if h, ok := r.Annot["obiclean_head"].(bool); !ok || h != expHead[s.ID] {
			rc.Violate("C13/exactness/head-flag", "record %s: obiclean_head=%v, expected %v", s.ID, r.Annot["obiclean_head"], expHead[s.ID])
			return
		}
		wantFathers := map[string]bool{}
		for smp, ca := range s.Counts {
			for _, b := range seqs {
				if cb, ok := b.Counts[smp]; ok && b.ID != s.ID && cb > ca && oneDiff(s.Seq, b.Seq) {
					wantFathers[b.ID] = true
				}
			}
		}
		gotFathers := map[string]bool{}
		if mm, ok := r.Annot["obiclean_mutation"].(map[string]any); ok {
			for fid := range mm {
				gotFathers[fid] = true
			}
		}
		if fmt.Sprint(sortedKeys(gotFathers)) != fmt.Sprint(sortedKeys(wantFathers)) {
			rc.Violate("C13/exactness/links", "record %s (%s): linked to %v, but its strictly more abundant one-difference neighbours are %v", s.ID, s.Seq, sortedKeys(gotFathers), sortedKeys(wantFathers))
			return
		}
		if mm, ok := r.Annot["obiclean_mutation"].(map[string]any); ok {
			for fid, mv := range mm {
				f, ok := byID[fid]
				if !ok {
					rc.Violate("C13/exactness/mutation", "record %s: mutation refers to unknown father %s", s.ID, fid)
					return
				}
				if !oneDiff(s.Seq, f.Seq) {
					rc.Violate("C13/exactness/mutation", "record %s is linked to %s but they do not differ by one substitution or indel: %s / %s", s.ID, fid, s.Seq, f.Seq)
					return
				}
				if msg := checkMutation(s.Seq, f.Seq, fmt.Sprint(mv)); msg != "" {
					rc.Violate("C13/exactness/mutation", "record %s, father %s: %s", s.ID, fid, msg)
					return
				}
			}
		}
	}
}

func init() {
	register(&Property{
		ID:     "C13",
		Random: func(tier string) int { return map[string]int{"quick": 260, "thorough": 20000}[tier] },
		Run:    runC13,
		Level:  "exploration",
		Rule:   "each case = a generated data set (1-3 samples x 3-25 distinct sequences arranged as stars and chains of one-substitution / one-indel variants plus unrelated sequences, abundance ties) cleaned by the real obiclean main twice in child processes: a 2-worker reference without preemption inside read-modify-write sequences, and a drawn configuration (--max-cpu 1..8, -d 1..3, -r default/0.5/0.1, -H, scheduling policy, dense yields splitting every x.f++ of obiclean/graph.go into load / yield / store); every obiclean_* annotation of every record must be identical, and for d=1 with the default ratio status, head flag and mutations must match a brute-force one-difference graph. distinct = distinct (options, configuration, schedule signature); non-trivial = at least one step with >=2 runnable tasks",
		Real:   []string{"the real obiclean main", "obiclean.BuildSeqGraph / buildSamplePairs / extendSimilarityGraph / reweightSequences / FilterGraphOnRatio / Mutation / annotateOBIClean", "obialign.D1Or0, FastLCSScore", "readers and writers on real files"},
		Stub:   []string{"sync primitives, pools, scheduler (simrt)", "unsynchronised x.f++ on shared nodes modelled as load / scheduling point / store (a lost update is then a reachable state, DESIGN.md 3.3)", "process exit (captured)"},
	})
}
