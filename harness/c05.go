package harness

import (
	"bytes"
	"fmt"
	"os"
	"path/filepath"
	"strings"

	"git.metabarcoding.org/obitools/obitools4/obitools4/pkg/zverif/simrt"
)

// ---------------------------------------------------------------------------
// C05 — command output is a function of input and options, not of parallelism
// ---------------------------------------------------------------------------

var c05Commands = []string{"obiconvert", "obigrep", "obiannotate", "obicomplement", "obicount", "obicsv", "obisummary", "obipairing", "obipcr", "obimultiplex"}

var compl = map[byte]byte{'a': 't', 'c': 'g', 'g': 'c', 't': 'a', 'n': 'n'}

func revcomp(s string) string {
	b := make([]byte, len(s))
	for i := 0; i < len(s); i++ {
		c, ok := compl[s[len(s)-1-i]]
		if !ok {
			c = 'n'
		}
		b[i] = c
	}
	return string(b)
}

func mutate(t *simrt.Tape, s string, rate int) string {
	b := []byte(s)
	for i := range b {
		if t.Choose(100) < rate {
			b[i] = dna[t.Choose(4)]
		}
	}
	return string(b)
}

type cmdCase struct {
	Name     string
	Files    map[string][]byte // input files by relative name
	Args     []string          // functional options; "$D/" prefixes files
	Inputs   []string          // positional input files
	OutOpt   bool              // add "-o $D/out" (otherwise stdout)
	Compress bool              // add "-Z"
}

func fastaText(recs []Rec, jsonHead bool) []byte {
	fc := &fileCase{Shape: fileShape{Format: fmFasta, Fold: 60, JSONHead: jsonHead}, Recs: recs}
	renderFile(fc)
	return fc.Text
}

func fastqText(recs []Rec, jsonHead bool) []byte {
	fc := &fileCase{Shape: fileShape{Format: fmFastq, JSONHead: jsonHead}, Recs: recs}
	renderFile(fc)
	return fc.Text
}

func annotatedRecs(t *simrt.Tape, n int, withQual bool) []Rec {
	recs := genRecs(t, n, 0, withQual, 8, 90)
	for i := range recs {
		recs[i].Annot = map[string]any{"count": 1 + t.Choose(5), "sample": fmt.Sprintf("s%d", t.Choose(3))}
		if t.Choose(3) == 0 {
			recs[i].Annot["tag"] = []string{"x", "yy", "z"}[t.Choose(3)]
		}
		recs[i].Def = []string{"", "some definition", "other text"}[t.Choose(3)]
	}
	return recs
}

func drawCmdCase(t *simrt.Tape, name string, thorough bool) cmdCase {
	c := cmdCase{Name: name, Files: map[string][]byte{}}
	maxN := 25
	if thorough {
		maxN = 80
	}
	n := 1 + t.Choose(maxN)
	if t.Choose(6) == 5 {
		// enough records for many batches to be in flight at once (every worker busy)
		n = 150 + t.Choose(200)
	}
	switch name {
	case "obiconvert", "obigrep", "obiannotate", "obicomplement":
		if t.Choose(6) == 5 {
			// compressed output: the bytes of the .gz stream are part of the output too
			c.Compress = true
			if t.Choose(2) == 1 {
				n = 900 + t.Choose(600) // more than one compression block
			}
		}
	}
	fastq := t.Choose(2) == 1
	switch name {
	case "obipairing":
		var fw, rv []Rec
		for i := 0; i < n; i++ {
			frag := genSeq(t, 60, 140, dna)
			L := 40 + t.Choose(len(frag)-39)
			if L > len(frag) {
				L = len(frag)
			}
			f := mutate(t, frag[:L], 2)
			r := mutate(t, revcomp(frag[len(frag)-L:]), 2)
			id := fmt.Sprintf("p%04d", i)
			fw = append(fw, Rec{ID: id, Seq: f, Qual: genQual(t, len(f))})
			rv = append(rv, Rec{ID: id, Seq: r, Qual: genQual(t, len(r))})
		}
		c.Files["fwd.fastq"] = fastqText(fw, false)
		c.Files["rev.fastq"] = fastqText(rv, false)
		c.Args = []string{"-F", "$D/fwd.fastq", "-R", "$D/rev.fastq"}
		if t.Choose(3) == 2 {
			c.Args = append(c.Args, "--exact-mode")
		}
		if t.Choose(3) == 2 {
			c.Args = append(c.Args, "--min-overlap", fmt.Sprint(10+t.Choose(20)))
		}
		if t.Choose(4) == 3 {
			c.Args = append(c.Args, "--without-stat")
		}
		c.OutOpt = t.Choose(2) == 1
		return c
	case "obipcr":
		fwd, rev := "ttagataccccactatgc", "tagaacaggctcctctag"
		circular := t.Choose(3) == 2
		var recs []Rec
		for i := 0; i < n; i++ {
			body := genSeq(t, 20, 80, dna)
			left, right := genSeq(t, 0, 30, dna), genSeq(t, 0, 30, dna)
			s := left
			switch t.Choose(7) {
			case 0: // no site
				s += body
			case 1: // reverse strand
				s = revcomp(left + mutate(t, fwd, 3) + body + revcomp(rev) + right)
			case 5, 6: // several priming sites of each primer on one template (tandem amplicons)
				for k := 2 + t.Choose(4); k > 0; k-- {
					s += mutate(t, fwd, 2) + genSeq(t, 20, 40, dna) + mutate(t, revcomp(rev), 2) + genSeq(t, 0, 8, dna)
				}
				s += right
			default:
				s += mutate(t, fwd, 3) + body + mutate(t, revcomp(rev), 3) + right
			}
			if circular && t.Choose(2) == 1 && len(s) > len(left)+len(fwd) {
				// a circular template opened inside its forward priming site: the site spans
				// the origin of the record
				k := len(left) + 1 + t.Choose(len(fwd)-1)
				s = s[k:] + s[:k]
			}
			recs = append(recs, Rec{ID: fmt.Sprintf("t%04d", i), Seq: s, Annot: map[string]any{"count": 1 + t.Choose(4)}})
		}
		c.Files["in.fasta"] = fastaText(recs, true)
		c.Args = []string{"--forward", fwd, "--reverse", rev, "-e", fmt.Sprint(t.Choose(3))}
		if t.Choose(3) == 2 {
			c.Args = append(c.Args, "-l", fmt.Sprint(10+t.Choose(30)))
		}
		c.Args = append(c.Args, "-L", fmt.Sprint(40+t.Choose(100)))
		if circular {
			c.Args = append(c.Args, "--circular")
		}
		c.Inputs = []string{"$D/in.fasta"}
		c.OutOpt = t.Choose(2) == 1
		return c
	case "obimultiplex":
		fwd, rev := "ttagataccccactatgc", "tagaacaggctcctctag"
		tags := []string{"aattaac", "gaagtag", "gaatatc", "gcctcct"}
		var sheet strings.Builder
		for i, tg := range tags {
			fmt.Fprintf(&sheet, "exp  sample%d  %s  %s  %s  F  @\n", i, tg, strings.ToUpper(fwd), strings.ToUpper(rev))
		}
		c.Files["tags.txt"] = []byte(sheet.String())
		var recs []Rec
		for i := 0; i < n; i++ {
			tg := tags[t.Choose(len(tags))]
			body := genSeq(t, 20, 90, dna)
			var s string
			switch t.Choose(6) {
			case 0:
				s = genSeq(t, 40, 100, dna) // no site at all
			case 1:
				s = revcomp("cc" + tg + fwd + body + revcomp(rev) + revcomp(tg) + "gg")
			case 2:
				s = "cc" + mutate(t, tg, 15) + fwd + body + revcomp(rev) + revcomp(tg) + "gg" // damaged tag
			default:
				s = "cc" + tg + mutate(t, fwd, 3) + body + mutate(t, revcomp(rev), 3) + revcomp(tg) + "gg"
			}
			r := Rec{ID: fmt.Sprintf("m%04d", i), Seq: s}
			if fastq {
				r.Qual = genQual(t, len(s))
			}
			recs = append(recs, r)
		}
		if fastq {
			c.Files["in.fastq"] = fastqText(recs, false)
			c.Inputs = []string{"$D/in.fastq"}
		} else {
			c.Files["in.fasta"] = fastaText(recs, false)
			c.Inputs = []string{"$D/in.fasta"}
		}
		c.Args = []string{"-t", "$D/tags.txt", "-e", fmt.Sprint(t.Choose(3))}
		if t.Choose(2) == 1 {
			c.Args = append(c.Args, "-u", "$D/unidentified.fastx")
		}
		if t.Choose(4) == 3 {
			c.Args = append(c.Args, "--keep-errors")
		}
		c.OutOpt = t.Choose(2) == 1
		return c
	}
	recs := annotatedRecs(t, n, fastq)
	if name == "obisummary" || name == "obicount" || name == "obicsv" {
		// data sets as the other tools leave them: map-valued and list-valued attributes, each
		// kind present on all records of the data set or on none (obiuniq / obiclean output)
		hasMerged, hasStatus, hasWeight, hasList := t.Choose(2) == 1, t.Choose(2) == 1, t.Choose(2) == 1, t.Choose(3) == 2
		for i := range recs {
			smp := fmt.Sprintf("s%d", t.Choose(3))
			if hasMerged {
				recs[i].Annot["merged_sample"] = map[string]int{smp: 1 + t.Choose(4), "s9": 1}
			}
			if hasStatus {
				recs[i].Annot["obiclean_status"] = map[string]string{smp: []string{"h", "i", "s"}[t.Choose(3)]}
			}
			if hasWeight {
				recs[i].Annot["obiclean_weight"] = map[string]int{smp: 1 + t.Choose(20)}
			}
			if hasList {
				recs[i].Annot["path"] = []int{1, 2 + t.Choose(3)}
			}
		}
	}
	if fastq {
		c.Files["in.fastq"] = fastqText(recs, true)
		c.Inputs = []string{"$D/in.fastq"}
	} else {
		c.Files["in.fasta"] = fastaText(recs, true)
		c.Inputs = []string{"$D/in.fasta"}
	}
	c.OutOpt = t.Choose(2) == 1
	switch name {
	case "obiconvert":
		switch t.Choose(5) {
		case 1:
			c.Args = append(c.Args, "--fasta-output")
		case 2:
			if fastq {
				c.Args = append(c.Args, "--fastq-output")
			}
		case 3:
			c.Args = append(c.Args, "--json-output")
		case 4:
			c.Args = append(c.Args, "--output-OBI-header")
		}
		if t.Choose(5) == 4 {
			c.Args = append(c.Args, "-Z")
		}
	case "obigrep":
		for k := t.Choose(3); k >= 0; k-- {
			switch t.Choose(8) {
			case 0:
				c.Args = append(c.Args, "-l", fmt.Sprint(8+t.Choose(60)))
			case 1:
				c.Args = append(c.Args, "-L", fmt.Sprint(20+t.Choose(70)))
			case 2:
				c.Args = append(c.Args, "-c", fmt.Sprint(1+t.Choose(4)))
			case 3:
				c.Args = append(c.Args, "-s", []string{"^a", "gg", "acg.*t", "t$"}[t.Choose(4)])
			case 4:
				c.Args = append(c.Args, "-a", "sample="+[]string{"s0", "s[12]", "^s"}[t.Choose(3)])
			case 5:
				c.Args = append(c.Args, "-A", []string{"tag", "sample", "absent"}[t.Choose(3)])
			case 6:
				c.Args = append(c.Args, "-v")
			case 7:
				c.Args = append(c.Args, "-I", []string{"1$", "r00[0-4]", "7"}[t.Choose(3)])
			}
		}
		if t.Choose(3) == 2 {
			c.Args = append(c.Args, "--save-discarded", "$D/discarded.fastx")
		}
		if t.Choose(2) == 1 {
			// a short approximate pattern: many records match on one strand or the other, many do not
			c.Args = append(c.Args, "--approx-pattern", []string{"acgtr", "ggnnc", "ttyaa", "catg", "wwsss"}[t.Choose(5)])
			if t.Choose(2) == 1 {
				c.Args = append(c.Args, "--pattern-error", "1")
			}
		}
	case "obiannotate":
		for k := t.Choose(3); k >= 0; k-- {
			switch t.Choose(7) {
			case 0:
				c.Args = append(c.Args, "--length")
			case 1:
				c.Args = append(c.Args, "-S", "newtag=sequence.Len()")
			case 2:
				c.Args = append(c.Args, "--delete-tag", []string{"tag", "sample", "count"}[t.Choose(3)])
			case 3:
				c.Args = append(c.Args, "--keep", []string{"count", "sample"}[t.Choose(2)])
			case 4:
				c.Args = append(c.Args, "--clear")
			case 5:
				c.Args = append(c.Args, "--set-identifier", "annotations.sample")
			case 6:
				c.Args = append(c.Args, "--cut", fmt.Sprintf("%d:%d", 1+t.Choose(8), 9+t.Choose(60)))
			}
		}
	case "obicount":
		c.Args = append(c.Args, [][]string{{}, {"-v"}, {"-r"}, {"-s"}, {"-v", "-r"}}[t.Choose(5)]...)
		c.OutOpt = false
	case "obisummary":
		// --map is left out: it dereferences a nil summary before any record is read, whatever
		// the configuration (an ordinary, always-visible failure, not a C05 matter)
		c.Args = append(c.Args, [][]string{{}, {"--json-output"}, {"--yaml-output"}}[t.Choose(3)]...)
		c.OutOpt = false
	case "obicsv":
		for k := t.Choose(3); k >= 0; k-- {
			c.Args = append(c.Args, [][]string{{"--ids"}, {"--sequence"}, {"--count"}, {"--definition"}, {"-k", "sample"}, {"-k", "tag"}, {"--auto"}, {"--quality"}}[t.Choose(8)]...)
		}
	}
	return c
}

type parCfg struct {
	MaxCPU, BatchSize, Pool, Yield, Chunk, Policy int
	ErrNull                                       bool // stderr is a character device: the progress-bar stage is in the pipeline
}

func (p parCfg) String() string {
	return fmt.Sprintf("max-cpu=%d batch-size=%d pool=%d yield=%d chunk=%d policy=%d stderr-chardev=%v", p.MaxCPU, p.BatchSize, p.Pool, p.Yield, p.Chunk, p.Policy, p.ErrNull)
}

// cpuArgs: the parallelism options of a configuration; MaxCPU -1 stands for --force-one-cpu.
func (p parCfg) cpuArgs() []string {
	if p.MaxCPU < 0 {
		return []string{"--force-one-cpu", "--batch-size", fmt.Sprint(p.BatchSize)}
	}
	return []string{"--max-cpu", fmt.Sprint(p.MaxCPU), "--batch-size", fmt.Sprint(p.BatchSize)}
}

var refCfg = parCfg{MaxCPU: 2, BatchSize: 2000, Pool: 3, Yield: 0, Chunk: 0, Policy: 1}

func drawParCfg(t *simrt.Tape, n int) parCfg {
	var p parCfg
	p.MaxCPU = []int{2, 1, 3, 4, 8, 32, -1}[t.Choose(7)]
	half := n / 2
	if half < 1 {
		half = 1
	}
	p.BatchSize = []int{1, 2, 7, half, n, 2000, 3}[t.Choose(7)]
	if p.BatchSize < 1 {
		p.BatchSize = 1
	}
	p.Pool = t.Choose(4)
	p.Yield = t.Choose(4)
	p.Chunk = []int{0, 64, 200, 1000, 37}[t.Choose(5)]
	p.Policy = 0
	p.ErrNull = t.Choose(3) == 2
	return p
}

func (c cmdCase) materialize(dir string) {
	os.MkdirAll(dir, 0755)
	for name, b := range c.Files {
		os.WriteFile(filepath.Join(dir, name), b, 0644)
	}
}

func (c cmdCase) spec(dir string, p parCfg) CmdSpec {
	sub := func(a string) string { return strings.ReplaceAll(a, "$D", dir) }
	args := p.cpuArgs()
	for _, a := range c.Args {
		args = append(args, sub(a))
	}
	if c.Compress {
		args = append(args, "-Z")
	}
	if c.OutOpt {
		args = append(args, "-o", filepath.Join(dir, "out.fastx"))
	}
	for _, a := range c.Inputs {
		args = append(args, sub(a))
	}
	knobs := map[string]int{}
	if p.Chunk > 0 {
		knobs["chunk"] = p.Chunk
	}
	return CmdSpec{Name: c.Name, Args: args, Dir: dir, Knobs: knobs, PoolPolicy: p.Pool, YieldDensity: p.Yield, StderrNull: p.ErrNull, Policy: p.Policy}
}

func (c cmdCase) inputSet() map[string]bool {
	m := map[string]bool{}
	for k := range c.Files {
		m[k] = true
	}
	return m
}

func (c cmdCase) describe() map[string]any {
	sizes := map[string]int{}
	for k, v := range c.Files {
		sizes[k] = len(v)
	}
	return map[string]any{"command": c.Name, "options": c.Args, "inputs": sizes, "to_file": c.OutOpt}
}

func diffOutputs(a, b map[string][]byte) string {
	ka, kb := sortedKeys(a), sortedKeys(b)
	if !equalStrings(ka, kb) {
		return fmt.Sprintf("different output files: %v vs %v", ka, kb)
	}
	for _, k := range ka {
		if !bytes.Equal(a[k], b[k]) {
			la, lb := strings.Split(string(a[k]), "\n"), strings.Split(string(b[k]), "\n")
			for i := 0; i < len(la) && i < len(lb); i++ {
				if la[i] != lb[i] {
					return fmt.Sprintf("file %s differs at line %d:\n  test: %q\n  ref : %q", k, i+1, clip(la[i], 300), clip(lb[i], 300))
				}
			}
			return fmt.Sprintf("file %s: %d vs %d lines (%d vs %d bytes)", k, len(la), len(lb), len(a[k]), len(b[k]))
		}
	}
	return ""
}

func runC05(rc *RunCtx) {
	t := rc.Plan
	if t.Choose(3) == 2 {
		c05Library(rc, t)
		return
	}
	name := c05Commands[t.Choose(len(c05Commands))]
	c := drawCmdCase(t, name, rc.Thorough())
	nrec := 1
	for _, f := range c.Files {
		nrec += bytes.Count(f, []byte("\n>")) + bytes.Count(f, []byte("\n@"))
	}
	p := drawParCfg(t, nrec)
	if t.Choose(3) == 2 {
		// many small batches and preemption inside the workers: every worker is busy at once
		p.BatchSize = 1 + t.Choose(3)
		p.Yield = 2 + t.Choose(2)
		if p.MaxCPU < 4 {
			p.MaxCPU = 4
		}
	}
	rc.Out.Sample = map[string]any{"case": c.describe(), "config": p.String(), "reference": refCfg.String()}
	dirRef := filepath.Join(rc.Dir, fmt.Sprintf("r%d-ref", rc.Index))
	dirTest := filepath.Join(rc.Dir, fmt.Sprintf("r%d-test", rc.Index))
	defer cleanup(dirRef)
	defer cleanup(dirTest)
	c.materialize(dirRef)
	c.materialize(dirTest)
	ref := rc.RunCmd(c.spec(dirRef, refCfg))
	if prev, err := os.ReadFile(filepath.Join(dirRef, "out.fastx")); err == nil && t.Choose(2) == 1 {
		// the output file of the drawn configuration already exists, left by an earlier and
		// longer run: what the command writes must replace it entirely
		staleFile(t, filepath.Join(dirTest, "out.fastx"), len(prev))
		rc.Probe("output_file_already_exists")
	}
	test := rc.RunCmd(c.spec(dirTest, p))
	rc.Out.Nontrivial = test.Contended > 0
	rc.Out.Key = fmt.Sprintf("%s/%v/%s/%s", name, c.Args, p, test.Sig)
	suspect := ""
	for _, a := range c.Args {
		if a == "--auto" {
			suspect = "[--auto]"
		}
	}
	if ref.Failed() && !ref.Crashed && !ref.Deadlock {
		// the command rejects this input / these options: then it must do so in every
		// configuration (the behaviour, not only the bytes, is a function of input and options)
		rc.Probe("reference_run_failed")
		if test.TimedOut || test.StepCap {
			rc.Inconclusive("%s", test.Describe())
		} else if !test.Failed() {
			rc.Violate("C05/"+name+"/failure-depends-on-parallelism"+suspect, "the reference configuration (%s) fails (%s) but (%s) does not: %s; options %v", refCfg, ref.Describe(), p, test.Describe(), c.Args)
		}
		return
	}
	if !rc.cmdMustSucceed(ref, "C05/"+name+"/reference", "reference configuration ("+refCfg.String()+") options "+strings.Join(c.Args, " ")) {
		return
	}
	if !rc.cmdMustSucceed(test, "C05/"+name+suspect, "configuration ("+p.String()+") options "+strings.Join(c.Args, " ")) {
		return
	}
	outRef := outputFiles(dirRef, c.inputSet())
	outTest := outputFiles(dirTest, c.inputSet())
	total := 0
	for _, b := range outRef {
		total += len(b)
	}
	if total > 0 {
		rc.Probe("nonempty_output")
	}
	rc.Log("ref=%s test=%s", shaFiles(outRef), shaFiles(outTest))
	if d := diffOutputs(outTest, outRef); d != "" {
		rc.Violate("C05/"+name+"/output-depends-on-parallelism"+suspect, "outputs differ between (%s) and the reference (%s), options %v:\n%s", p, refCfg, c.Args, d)
	}
}

// staleFile leaves at path the output of an "earlier run": well-formed records, more bytes
// than the run to come will write.
func staleFile(t *simrt.Tape, path string, atLeast int) {
	n := atLeast + 200 + t.Choose(5000)
	var b bytes.Buffer
	for i := 0; b.Len() < n; i++ {
		fmt.Fprintf(&b, ">stale%04d {\"count\":1}\nacgtacgtacgtacgtacgt\n", i)
	}
	os.WriteFile(path, b.Bytes(), 0644)
}

func shaFiles(m map[string][]byte) string {
	parts := []string{}
	for _, k := range sortedKeys(m) {
		parts = append(parts, k, string(m[k]))
	}
	return sha(parts...)
}

func init() {
	register(&Property{
		ID:     "C05",
		Random: func(tier string) int { return map[string]int{"quick": 500, "thorough": 24000}[tier] },
		Run:    runC05,
		Level:  "exploration",
		Rule:   "two thirds of the cases = one generated (input, functional options) for one of obiconvert, obigrep, obiannotate, obicomplement, obicount, obicsv, obisummary, obipairing (overlapping read pairs with errors), obipcr (templates with 0-5 priming sites of each primer, on either strand), obimultiplex (reads assembled from a generated sample sheet), run twice through the real main of the command in child processes: reference configuration (max-cpu 2, batch-size 2000, lowest-id schedule, pool that never reuses) and a drawn configuration (max-cpu 1..32, batch-size 1..n..2000, scheduling policy, pool policy LIFO/FIFO/random/never with poisoning of recycled buffers, dense-yield density, chunk-buffer size, map-order permutation); every output file must be byte-identical; one third = library stage: a predicate built from the constructors the commands use (approximate IUPAC pattern on one or both strands, regular expressions on sequence / definition / identifier / attribute, attribute presence, lengths, boolean expressions; combined by And / Or / Not, optionally through PairedPredicat in its six modes) applied by FilterOn with 2-6 workers to 20-120 records in batches of 1-5, compared with a second instance of the predicate applied sequentially. distinct = distinct (command, options, configuration, schedule signature); non-trivial = at least one scheduling step with >=2 runnable tasks",
		Real:   []string{"the real main body of each command (option parsing included)", "all obitools4 packages", "third-party modules", "the OS file system for inputs and outputs"},
		Stub:   []string{"sync primitives, sync.Pool (deterministic, poisoning), goroutine scheduling", "os.Exit / logrus exit (captured)", "stdin/stdout/stderr (regular files)", "chunk-buffer constants (knob)", "Go map iteration order (tape-driven permutation)"},
	})
}
