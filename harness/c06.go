package harness

import (
	"encoding/json"
	"fmt"
	"hash/crc32"
	"os"
	"path/filepath"
	"sort"
	"strconv"
	"strings"

	"git.metabarcoding.org/obitools/obitools4/obitools4/pkg/zverif/simrt"
)

// ---------------------------------------------------------------------------
// C06 — dereplication conserves counts and merges exactly the identical records
// ---------------------------------------------------------------------------

// parsedRec is what the harness' own reader extracts from a FASTA/FASTQ file written by the
// toolkit with JSON headers.
type parsedRec struct {
	ID    string
	Annot map[string]any
	Def   string
	Seq   string
	Qual  string
}

func parseObiFasta(text []byte) ([]parsedRec, error) {
	var out []parsedRec
	var cur *parsedRec
	for _, line := range strings.Split(string(text), "\n") {
		line = strings.TrimRight(line, "\r")
		if strings.HasPrefix(line, ">") {
			out = append(out, parsedRec{Annot: map[string]any{}})
			cur = &out[len(out)-1]
			if err := parseTitle(line[1:], cur); err != nil {
				return nil, err
			}
		} else if cur != nil {
			cur.Seq += strings.TrimSpace(line)
		} else if strings.TrimSpace(line) != "" {
			return nil, fmt.Errorf("data before the first record: %q", clip(line, 40))
		}
	}
	return out, nil
}

func parseObiFastq(text []byte) ([]parsedRec, error) {
	var out []parsedRec
	lines := strings.Split(strings.TrimRight(string(text), "\n"), "\n")
	if len(lines) == 1 && lines[0] == "" {
		return nil, nil
	}
	if len(lines)%4 != 0 {
		return nil, fmt.Errorf("%d lines: not a multiple of 4", len(lines))
	}
	for i := 0; i < len(lines); i += 4 {
		if !strings.HasPrefix(lines[i], "@") || !strings.HasPrefix(lines[i+2], "+") {
			return nil, fmt.Errorf("malformed fastq record at line %d", i+1)
		}
		r := parsedRec{Annot: map[string]any{}, Seq: lines[i+1], Qual: lines[i+3]}
		if err := parseTitle(lines[i][1:], &r); err != nil {
			return nil, err
		}
		out = append(out, r)
	}
	return out, nil
}

func parseObiFastx(text []byte) ([]parsedRec, error) {
	if len(text) > 0 && text[0] == '@' {
		return parseObiFastq(text)
	}
	return parseObiFasta(text)
}

func parseTitle(title string, r *parsedRec) error {
	f := strings.SplitN(title, " ", 2)
	r.ID = f[0]
	if len(f) == 1 {
		return nil
	}
	rest := strings.TrimSpace(f[1])
	if strings.HasPrefix(rest, "{") {
		dec := json.NewDecoder(strings.NewReader(rest))
		dec.UseNumber()
		if err := dec.Decode(&r.Annot); err != nil {
			return fmt.Errorf("record %s: bad JSON header: %v", r.ID, err)
		}
		rest = strings.TrimSpace(rest[dec.InputOffset():])
	}
	r.Def = rest
	return nil
}

func annotInt(v any) (int, bool) {
	switch x := v.(type) {
	case json.Number:
		i, err := x.Int64()
		return int(i), err == nil
	case float64:
		return int(x), true
	case int:
		return x, true
	}
	return 0, false
}

type uniqRec struct {
	ID        string
	Seq       string
	Count     int            // 0: no count attribute (means 1)
	Sample    string         // "": absent
	Tag       string         // "": absent
	Merged    map[string]int // already merged_sample map (then Sample is empty)
	TagIsText bool           // the tag value is a string even when it reads like a number
}

func (u uniqRec) weight() int {
	if u.Count == 0 {
		return 1
	}
	return u.Count
}

// uniqOBIHeaders: the input file of the current case is written with OBI-style headers.
var uniqOBIHeaders bool

func (u uniqRec) text() string {
	a := map[string]any{}
	if u.Count > 0 {
		a["count"] = u.Count
	}
	if u.Sample != "" {
		a["sample"] = u.Sample
	}
	if u.Tag != "" {
		if f, err := strconv.ParseFloat(u.Tag, 64); err == nil && !u.TagIsText {
			a["tag"] = f // a numeric category value (1, 2, 1.5, 1.25 ...)
		} else {
			a["tag"] = u.Tag
		}
	}
	if u.Merged != nil {
		a["merged_sample"] = u.Merged
	}
	r := Rec{ID: u.ID, Seq: u.Seq, Annot: a}
	h := jsonHeader(r)
	if uniqOBIHeaders {
		// the historical key=value; header (merged maps as {'a': 2, ...}): the readers then
		// deliver other Go types for the same values
		h = obiHeader(r)
	}
	if h != "" {
		h = " " + h
	}
	return ">" + u.ID + h + "\n" + u.Seq + "\n"
}

type uniqOpts struct {
	MergeSample bool
	CatTag      bool
	CatSample   bool
	NA          string
	NoSingleton bool
	InMemory    bool
	Chunks      int
}

func (o uniqOpts) args() []string {
	var a []string
	if o.MergeSample {
		a = append(a, "-m", "sample")
	}
	if o.CatTag {
		a = append(a, "-c", "tag")
	}
	if o.CatSample {
		a = append(a, "-c", "sample")
	}
	if o.NA != "" {
		a = append(a, "--na-value", o.NA)
	}
	if o.NoSingleton {
		a = append(a, "--no-singleton")
	}
	if o.InMemory {
		a = append(a, "--in-memory")
	}
	a = append(a, "--chunk-count", fmt.Sprint(o.Chunks))
	return a
}

func mapString(m map[string]int) string {
	keys := make([]string, 0, len(m))
	for k := range m {
		keys = append(keys, k)
	}
	sort.Strings(keys)
	parts := []string{}
	for _, k := range keys {
		parts = append(parts, fmt.Sprintf("%s:%d", k, m[k]))
	}
	return "{" + strings.Join(parts, ",") + "}"
}

// expectedUniq is the reference dereplication: group by (sequence, category values), sum.
func expectedUniq(recs []uniqRec, o uniqOpts) []string {
	na := o.NA
	if na == "" {
		na = "NA"
	}
	type class struct {
		seq, tag, sample string
		count            int
		merged           map[string]int
		members          int
	}
	classes := map[string]*class{}
	order := []string{}
	val := func(s string) string {
		if s == "" {
			return na
		}
		return s
	}
	for _, r := range recs {
		key := r.Seq
		tag, sample := "-", "-"
		if o.CatTag {
			tag = val(r.Tag)
			key += "|t=" + tag
		}
		if o.CatSample {
			sample = val(r.Sample)
			key += "|s=" + sample
		}
		c := classes[key]
		if c == nil {
			c = &class{seq: r.Seq, tag: tag, sample: sample, merged: map[string]int{}}
			classes[key] = c
			order = append(order, key)
		}
		c.count += r.weight()
		c.members++
		if r.Merged != nil {
			for k, v := range r.Merged {
				c.merged[k] += v
			}
		} else {
			c.merged[val(r.Sample)] += r.weight()
		}
	}
	out := []string{}
	for _, k := range order {
		c := classes[k]
		if o.NoSingleton && c.count == 1 {
			continue
		}
		s := fmt.Sprintf("seq=%s|tag=%s|sample=%s|count=%d", c.seq, c.tag, c.sample, c.count)
		if o.MergeSample {
			s += "|merged_sample=" + mapString(c.merged)
		}
		out = append(out, s)
	}
	sort.Strings(out)
	return out
}

func observedUniq(recs []parsedRec, o uniqOpts) ([]string, error) {
	na := o.NA
	if na == "" {
		na = "NA"
	}
	out := []string{}
	for _, r := range recs {
		count := 1
		if v, ok := r.Annot["count"]; ok {
			c, ok := annotInt(v)
			if !ok {
				return nil, fmt.Errorf("record %s: count is %v", r.ID, v)
			}
			count = c
		}
		tag, sample := "-", "-"
		get := func(k string) string {
			if v, ok := r.Annot[k]; ok {
				return fmt.Sprint(v)
			}
			return na
		}
		if o.CatTag {
			tag = get("tag")
		}
		if o.CatSample {
			sample = get("sample")
		}
		s := fmt.Sprintf("seq=%s|tag=%s|sample=%s|count=%d", r.Seq, tag, sample, count)
		if o.MergeSample {
			m := map[string]int{}
			raw, ok := r.Annot["merged_sample"].(map[string]any)
			if !ok {
				return nil, fmt.Errorf("record %s has no merged_sample map: %v", r.ID, r.Annot)
			}
			for k, v := range raw {
				i, ok := annotInt(v)
				if !ok {
					return nil, fmt.Errorf("record %s: merged_sample[%s] = %v", r.ID, k, v)
				}
				m[k] = i
			}
			s += "|merged_sample=" + mapString(m)
		}
		out = append(out, s)
	}
	sort.Strings(out)
	return out, nil
}

// crcTwins returns distinct sequences of one length whose CRC-32 (IEEE) is the same: found by
// birthday search over a deterministic stream of 24-mers (about 80 000 candidates, a few ms).
var crcTwinCache [][2]string

func crcTwins() [][2]string {
	if crcTwinCache != nil {
		return crcTwinCache
	}
	seen := map[uint32]string{}
	x := uint64(0x9E3779B97F4A7C15)
	for len(crcTwinCache) < 3 {
		b := make([]byte, 24)
		for i := range b {
			x ^= x << 13
			x ^= x >> 7
			x ^= x << 17
			b[i] = dna[x&3]
		}
		s := string(b)
		h := crc32.ChecksumIEEE(b)
		if o, ok := seen[h]; ok && o != s {
			crcTwinCache = append(crcTwinCache, [2]string{o, s})
		}
		seen[h] = s
	}
	return crcTwinCache
}

func drawUniqCase(t *simrt.Tape, thorough bool) ([]uniqRec, uniqOpts) {
	maxRecs, maxSeqs := 40, 10
	if thorough {
		maxRecs, maxSeqs = 120, 25
	}
	ns := 1 + t.Choose(maxSeqs)
	seqs := []string{}
	for i := 0; i < ns; i++ {
		s := genSeq(t, 5, 60, dna)
		if i > 0 && t.Choose(3) == 2 {
			// a one-base variant of an earlier sequence
			b := []byte(seqs[t.Choose(len(seqs))])
			p := t.Choose(len(b))
			b[p] = dna[(strings.IndexByte(dna, b[p])+1)%4]
			s = string(b)
		}
		seqs = append(seqs, s)
	}
	if t.Choose(4) == 3 {
		// two different sequences that any 32-bit CRC keyed table takes for one
		tw := crcTwins()[t.Choose(3)]
		seqs = append(seqs, tw[0], tw[1])
	}
	n := 2 + t.Choose(maxRecs-1)
	recs := make([]uniqRec, n)
	// category values: words, or numbers some of which share their integer part
	tagValues := []string{"x", "y", "z"}
	tagIsText := false
	switch t.Choose(5) {
	case 2:
		tagValues = []string{"1", "1.5", "1.25", "2", "2.5"}
	case 3:
		// strings that read like other things: distinct as strings, equal (or re-typed) once
		// taken for numbers or booleans
		tagValues, tagIsText = []string{"01", "1", "+1", "1e0", "T", "true"}, true
	case 4:
		tagValues, tagIsText = []string{`C:\data\`, "x", `a\b`}, true
	}
	for i := range recs {
		r := uniqRec{ID: fmt.Sprintf("u%04d", i), Seq: seqs[t.Choose(len(seqs))]}
		switch t.Choose(4) {
		case 0:
		case 1:
			r.Count = 1
		default:
			r.Count = 1 + t.Choose(6)
		}
		switch t.Choose(5) {
		case 0: // no sample
		case 1: // already merged
			r.Merged = map[string]int{}
			tot := 0
			for k := 0; k <= t.Choose(3); k++ {
				v := 1 + t.Choose(4)
				r.Merged[fmt.Sprintf("s%d", t.Choose(4))] += v
				tot += v
			}
			r.Count = 0
			for _, v := range r.Merged {
				r.Count += v
			}
		default:
			r.Sample = fmt.Sprintf("s%d", t.Choose(4))
		}
		if t.Choose(3) != 0 {
			r.Tag = tagValues[t.Choose(len(tagValues))]
			r.TagIsText = tagIsText
		}
		recs[i] = r
	}
	var o uniqOpts
	o.MergeSample = t.Choose(3) != 0
	o.CatTag = t.Choose(3) == 2
	o.CatSample = t.Choose(5) == 4
	if o.CatSample {
		// category on "sample" needs records with a scalar sample attribute
		for i := range recs {
			if recs[i].Merged != nil {
				recs[i].Merged = nil
				recs[i].Sample = "s0"
			}
		}
	}
	if t.Choose(4) == 3 {
		o.NA = "none"
	}
	o.NoSingleton = t.Choose(4) == 3
	o.InMemory = t.Choose(2) == 1
	o.Chunks = []int{3, 1, 2, 7, 100}[t.Choose(5)]
	return recs, o
}

// drawUniqLarge: more than 2^16 distinct sequences that all fall in one chunk (plus a few
// duplicates): every width-limited class code, hash or counter inside one chunk is exceeded.
func drawUniqLarge(t *simrt.Tape) ([]uniqRec, uniqOpts) {
	var o uniqOpts
	o.InMemory = t.Choose(2) == 1
	ns := 65537 + t.Choose(3000)
	mul := uint32(2654435761) // odd: i -> i*mul is a bijection on 32 bits = 16 nucleotides
	off := uint32(t.Choose(1 << 30))
	seqOf := func(i int) string {
		v := (uint32(i) + off) * mul
		b := make([]byte, 16)
		for k := range b {
			b[k] = dna[v&3]
			v >>= 2
		}
		return string(b)
	}
	recs := make([]uniqRec, 0, ns+40)
	for i := 0; i < ns; i++ {
		recs = append(recs, uniqRec{ID: fmt.Sprintf("u%06d", i), Seq: seqOf(i)})
	}
	for k := 1 + t.Choose(40); k > 0; k-- {
		recs = append(recs, uniqRec{ID: fmt.Sprintf("d%06d", k), Seq: seqOf(t.Choose(ns)), Count: 1 + t.Choose(5)})
	}
	o.NoSingleton = t.Choose(2) == 1
	o.Chunks = 1
	return recs, o
}

func runC06(rc *RunCtx) {
	t := rc.Plan
	large := t.Choose(400) == 1
	var recs []uniqRec
	var o uniqOpts
	var perm []int
	var p parCfg
	if large {
		recs, o = drawUniqLarge(t)
		perm = make([]int, len(recs))
		for i := range perm {
			perm[i] = i
		}
		p = drawParCfg(t, len(recs))
		p.BatchSize = []int{2000, 5000, 17000}[t.Choose(3)]
		p.Yield, p.Chunk = 0, 0
		rc.Probe("more_than_65536_distinct_sequences_in_one_chunk")
	} else {
		recs, o = drawUniqCase(t, rc.Thorough())
		// input permutation is part of the plan
		perm = drawPerm(t, len(recs))
		p = drawParCfg(t, len(recs))
	}
	uniqOBIHeaders = !large && t.Choose(3) == 2
	for _, r := range recs {
		if r.TagIsText {
			uniqOBIHeaders = false // unquoted in a key=value; header these strings would be other values
		}
	}
	var sb strings.Builder
	for _, i := range perm {
		sb.WriteString(recs[i].text())
	}
	if uniqOBIHeaders {
		rc.Probe("input_with_obi_style_headers")
	}
	dir := filepath.Join(rc.Dir, fmt.Sprintf("u%d", rc.Index))
	defer cleanup(dir)
	os.MkdirAll(dir, 0755)
	in := filepath.Join(dir, "in.fasta")
	os.WriteFile(in, []byte(sb.String()), 0644)
	args := p.cpuArgs()
	args = append(args, o.args()...)
	args = append(args, "-o", filepath.Join(dir, "out.fasta"), in)
	knobs := map[string]int{}
	if p.Chunk > 0 {
		knobs["chunk"] = p.Chunk
	}
	rc.Out.Sample = map[string]any{"records": len(recs), "options": o.args(), "config": p.String()}
	spec := CmdSpec{Name: "obiuniq", Args: args, Dir: dir, Knobs: knobs, PoolPolicy: p.Pool, YieldDensity: p.Yield, StderrNull: p.ErrNull}
	if large {
		spec.MaxSteps = 20000000
		spec.TimeoutSec = 1500
	}
	if !large && t.Choose(4) == 3 {
		// crash and restart: the same command was killed at an arbitrary step of an earlier
		// attempt - same input, same temporary directory, same process id (a container, a
		// reboot) - and has left whatever it had on disk: chunk files, a partial output.
		// The run that follows must not be disturbed by any of it.
		knobs["pid"] = 4242
		crash := spec
		crash.CrashAt = 20 + t.Choose(4000)
		if t.Choose(2) == 1 {
			// the killed attempt was on other data and cut it in more chunks
			var pb strings.Builder
			for _, i := range perm {
				r := recs[i]
				b := []byte(r.Seq)
				for x, y := 0, len(b)-1; x < y; x, y = x+1, y-1 {
					b[x], b[y] = b[y], b[x]
				}
				r.Seq = string(b) + "acgtacgtac"
				pb.WriteString(r.text())
			}
			prev := filepath.Join(dir, "previous.fasta")
			os.WriteFile(prev, []byte(pb.String()), 0644)
			ca := append([]string{}, args...)
			ca[len(ca)-1] = prev
			for k := range ca {
				if ca[k] == "--chunk-count" {
					ca[k+1] = "100"
				}
			}
			crash.Args = ca
		}
		cco := rc.RunCmd(crash)
		if cco.Killed {
			rc.Fault("killed_then_restarted_" + map[bool]string{true: "memory", false: "disk"}[o.InMemory])
			left, _ := filepath.Glob(filepath.Join(dir, "obiseq_chunks_*", "*"))
			if len(left) > 0 {
				rc.Probe("chunk_files_left_by_the_killed_run")
			}
		} else {
			rc.Probe("crash_step_beyond_the_end_of_the_run")
		}
	}
	co := rc.RunCmd(spec)
	mode := "disk"
	if o.InMemory {
		mode = "memory"
	}
	rc.Probe("mode_" + mode)
	rc.Out.Nontrivial = co.Contended > 0
	rc.Out.Key = fmt.Sprintf("%v/%s/%s", o.args(), p, co.Sig)
	if !rc.cmdMustSucceed(co, "C06/"+mode, fmt.Sprintf("obiuniq %v (%s)", o.args(), p)) {
		return
	}
	raw, err := os.ReadFile(filepath.Join(dir, "out.fasta"))
	if err != nil {
		rc.Violate("C06/"+mode+"/no-output", "no output file: %v", err)
		return
	}
	rc.Log("out=%s", sha(string(raw)))
	got, err := parseObiFasta(raw)
	if err != nil {
		rc.Violate("C06/"+mode+"/unparsable-output", "%v", err)
		return
	}
	obs, err := observedUniq(got, o)
	if err != nil {
		rc.Violate("C06/"+mode+"/malformed-record", "%v", err)
		return
	}
	exp := expectedUniq(recs, o)
	defer func() {
		// round trip: obidemerge turns every merged map back into one record per value with
		// exactly those counts
		if rc.Out.Status != "ok" || !o.MergeSample || o.CatSample || rc.Plan.Choose(3) != 0 {
			return
		}
		rc.Probe("demerge_round_trip")
		d2 := filepath.Join(dir, "demerge")
		os.MkdirAll(d2, 0755)
		dm := rc.RunCmd(CmdSpec{Name: "obidemerge", Dir: d2, PoolPolicy: p.Pool, YieldDensity: p.Yield, StderrNull: p.ErrNull,
			Args: append(p.cpuArgs(), "-d", "sample", "-o", filepath.Join(d2, "out.fasta"), filepath.Join(dir, "out.fasta"))})
		if !rc.cmdMustSucceed(dm, "C06/demerge", "obidemerge -d sample on the output of obiuniq") {
			return
		}
		raw2, _ := os.ReadFile(filepath.Join(d2, "out.fasta"))
		got2, err := parseObiFasta(raw2)
		if err != nil {
			rc.Violate("C06/demerge/unparsable-output", "%v", err)
			return
		}
		var obsD, expD []string
		for _, r := range got2 {
			c, _ := annotInt(r.Annot["count"])
			if _, still := r.Annot["merged_sample"]; still {
				rc.Violate("C06/demerge/merged-slot-left", "record %s still carries merged_sample after obidemerge", r.ID)
				return
			}
			tag := "-"
			if o.CatTag {
				tag = "NA"
				if o.NA != "" {
					tag = o.NA
				}
				if v, ok := r.Annot["tag"]; ok {
					tag = fmt.Sprint(v)
				}
			}
			obsD = append(obsD, fmt.Sprintf("seq=%s|tag=%s|sample=%v|count=%d", r.Seq, tag, r.Annot["sample"], c))
		}
		for _, e := range exp {
			// e = seq=..|tag=..|sample=-|count=N|merged_sample={k:v,...}
			parts := strings.Split(e, "|")
			mm := strings.TrimSuffix(strings.TrimPrefix(parts[4], "merged_sample={"), "}")
			for _, kv := range strings.Split(mm, ",") {
				if kv == "" {
					continue
				}
				i := strings.LastIndex(kv, ":")
				expD = append(expD, fmt.Sprintf("%s|%s|sample=%s|count=%s", parts[0], parts[1], kv[:i], kv[i+1:]))
			}
		}
		sort.Strings(obsD)
		sort.Strings(expD)
		if !equalStrings(obsD, expD) {
			rc.Violate("C06/demerge/round-trip", "obiuniq %v | obidemerge -d sample (%s): %s", o.args(), p, firstDiff(obsD, expD))
		}
	}()
	if !equalStrings(obs, exp) {
		tot := func(a []string) int {
			s := 0
			for _, x := range a {
				var c int
				if k := strings.Index(x, "|count="); k >= 0 {
					fmt.Sscanf(x[k+7:], "%d", &c)
				}
				s += c
			}
			return s
		}
		what := "classes-differ"
		if tot(obs) != tot(exp) {
			what = "total-count-not-conserved"
		}
		rc.Violate("C06/"+mode+"/"+what, "obiuniq %v (%s): %d output records (total count %d), expected %d (total count %d): %s",
			o.args(), p, len(obs), tot(obs), len(exp), tot(exp), firstDiff(obs, exp))
	}
}

func init() {
	register(&Property{
		ID: "C06",
		// the large case: in memory (quick: it is the faster one, about a minute), and on disk (thorough)
		Enum:   func(tier string) int { return map[string]int{"quick": 1, "thorough": 2}[tier] },
		Case:   func(tier string, i int) []int32 { return []int32{1, int32(1 - i)} },
		Random: func(tier string) int { return map[string]int{"quick": 320, "thorough": 24000}[tier] },
		Run:    runC06,
		Level:  "exploration",
		Rule:   "enumerated part: more than 65536 distinct 16-mers (+ a few duplicates) in one chunk, in memory (quick) and also on disk (thorough) (also drawn with probability 1/400 in the random part, 65537-68536 sequences); each other case = a generated multiset of records (1-25 distinct sequences incl. one-base variants, counts absent/1/n, sample present, absent or already merged_sample maps, tag present or absent, with word or numeric values sharing an integer part) in a drawn input permutation, dereplicated by the real obiuniq main in a child process with drawn -m / -c / --na-value / --no-singleton / --in-memory or on-disk / --chunk-count 1,2,3,7,100 / --max-cpu / --batch-size and a seeded schedule (on-disk mode uses real chunk files in the run's TMPDIR); one case in four is preceded by the same command killed at a drawn scheduling step in the same directory and with the same process id (crash and restart: only what is on disk survives); the output is compared as a set with a reference group-by (count sums, merged map sums, singleton rule). distinct = distinct (options, configuration, schedule signature); non-trivial = at least one step with >=2 runnable tasks",
		Real:   []string{"the real obiuniq main", "obichunk (IUniqueSequence, ISequenceChunk, ISequenceChunkOnDisk, ISequenceSubChunk)", "obiiter.Distribute / IMergeSequenceBatch", "obiformats.WriterDispatcher and the FASTA writer/reader on real temporary files", "obiseq.Merge / StatsOn"},
		Stub:   []string{"sync primitives, pools, scheduler (simrt)", "process exit (captured)", "stdout/stderr (files)"},
	})
}
