package harness

import (
	"fmt"
	"hash/fnv"
	"sort"
	"strings"

	"git.metabarcoding.org/obitools/obitools4/obitools4/pkg/obiformats"
	"git.metabarcoding.org/obitools/obitools4/obitools4/pkg/obiiter"
	"git.metabarcoding.org/obitools/obitools4/obitools4/pkg/obioptions"
	"git.metabarcoding.org/obitools/obitools4/obitools4/pkg/obiseq"
	"git.metabarcoding.org/obitools/obitools4/obitools4/pkg/zverif/simrt"
)

// ---------------------------------------------------------------------------
// C03 — no record lost, duplicated or reordered by the stream combinators
// ---------------------------------------------------------------------------

func hid(id string) int {
	h := fnv.New32a()
	h.Write([]byte(id))
	return int(h.Sum32() >> 3)
}

const (
	srcInject = iota
	srcBatchOver
	srcPool
	srcConcat
	srcFiles
	srcPair
	nSources
)

var srcNames = []string{"inject", "IBatchOver", "Pool", "Concat", "ReadSequencesBatchFromFiles", "PairTo"}

const (
	midSort = iota
	midRebatch
	midFilterEmpty
	midWorkerTag
	midWorkerDrop
	midSliceDrop
	midFilterOn
	midFilterAnd
	midFragments
	midPipe
	midCompleteFile
	midMerge
	midLimitMemory // LimitMemory: a pass-through stage that may wait
	midWorkerErr   // MakeIWorker whose worker fails on some records (breakOnError=false: a warning, the record is dropped, the others go on)
	nMids
)

var midNames = []string{"SortBatches", "Rebatch", "FilterEmpty", "MakeIWorker(tag)", "MakeIWorker(drop)", "MakeISliceWorker(drop)", "FilterOn", "FilterAnd", "IFragments", "Pipe(WorkerPipe,SliceWorkerPipe)", "CompleteFileIterator", "IMergeSequenceBatch", "LimitMemory", "MakeIWorker(error on some records)"}

const (
	sinkCollect = iota
	sinkDivide
	sinkDistribute
	sinkLoad
	sinkCount
	sinkPeekSplit  // Next + PushBack, then several consumers sharing the stream through Split()
	sinkPairedWith // the stream of the mates, as the paired writers derive it for the second file
	sinkCopyTee    // CopyTee: two consumers, each must receive everything
	nSinks
)

var sinkNames = []string{"collect", "DivideOn", "Distribute", "Load", "Count", "peek+PushBack+Split consumers", "PairedWith", "CopyTee"}

type stream struct {
	Recs    []Rec
	Sizes   []int
	Arrival []int
}

type midStage struct {
	Kind, A, B, C int
}

type iterPlan struct {
	Source  int
	Streams []stream
	Mids    []midStage
	Sink    int
	SinkA   int
	SinkB   int
	Readers int
}

func (p iterPlan) describe() map[string]any {
	mids := []string{}
	for _, m := range p.Mids {
		mids = append(mids, fmt.Sprintf("%s(%d,%d,%d)", midNames[m.Kind], m.A, m.B, m.C))
	}
	st := []string{}
	for _, s := range p.Streams {
		st = append(st, fmt.Sprintf("sizes=%v arrival=%s", s.Sizes, permString(s.Arrival)))
	}
	return map[string]any{"source": srcNames[p.Source], "streams": st, "stages": mids, "sink": fmt.Sprintf("%s(%d,%d)", sinkNames[p.Sink], p.SinkA, p.SinkB)}
}

func drawStream(t *simrt.Tape, maxBatches, base int, allowEmptyStream bool) stream {
	var s stream
	n := t.Choose(maxBatches + 1)
	if n == 0 && !allowEmptyStream {
		n = 1
	}
	total := 0
	for i := 0; i < n; i++ {
		sz := []int{2, 0, 1, 3, 5}[t.Choose(5)]
		s.Sizes = append(s.Sizes, sz)
		total += sz
	}
	s.Arrival = drawPerm(t, n)
	s.Recs = genRecs(t, total, base, false, 5, 60)
	for i := range s.Recs {
		s.Recs[i].Annot = map[string]any{"sample": fmt.Sprintf("s%d", t.Choose(4)), "count": 1 + t.Choose(3)}
		s.Recs[i].Def = ""
	}
	return s
}

func drawIterPlan(t *simrt.Tape, thorough bool) iterPlan {
	var p iterPlan
	maxB := 6
	if thorough {
		maxB = 10
	}
	p.Source = t.Choose(nSources)
	ns := 1
	switch p.Source {
	case srcPool, srcConcat, srcFiles:
		ns = 2 + t.Choose(2)
	case srcPair:
		ns = 2
	}
	base := 0
	for i := 0; i < ns; i++ {
		s := drawStream(t, maxB, base, true)
		base += 1000
		p.Streams = append(p.Streams, s)
	}
	if p.Source == srcPair {
		// mates: same number of records, own partition and arrival order
		a := p.Streams[0]
		b := stream{}
		n := len(a.Recs)
		rem := n
		for rem > 0 {
			sz := 1 + t.Choose(minI(4, rem))
			b.Sizes = append(b.Sizes, sz)
			rem -= sz
		}
		if t.Choose(3) == 2 {
			b.Sizes = append(b.Sizes, 0)
		}
		b.Arrival = drawPerm(t, len(b.Sizes))
		b.Recs = genRecs(t, n, 1000, false, 5, 60)
		p.Streams[1] = b
	}
	p.Readers = 1 + t.Choose(3)
	nm := t.Choose(5)
	usedFrag := false
	for i := 0; i < nm; i++ {
		m := midStage{Kind: t.Choose(nMids), A: t.Choose(6), B: t.Choose(6), C: t.Choose(4)}
		if m.Kind == midFragments {
			if usedFrag {
				m.Kind = midRebatch
			}
			usedFrag = true
		}
		if p.Source == srcPair && (m.Kind == midWorkerDrop || m.Kind == midWorkerErr || m.Kind == midSliceDrop || m.Kind == midFragments || m.Kind == midMerge || m.Kind == midFilterOn) {
			// keep mates in step: FilterAnd is the paired filter
			m.Kind = midFilterAnd
		}
		p.Mids = append(p.Mids, m)
	}
	p.Sink = t.Choose(nSinks)
	if p.Sink == sinkPairedWith && p.Source != srcPair {
		p.Sink = sinkCollect
	}
	if p.Source == srcPair && t.Choose(2) == 1 {
		p.Sink = sinkPairedWith
	}
	p.SinkA = t.Choose(5)
	p.SinkB = t.Choose(4)
	return p
}

// ---- model -----------------------------------------------------------------

type iterModel struct {
	ids           []string
	ordered       bool       // ids is the expected order after sorting batches by number
	arrivalSorted bool       // batches reach the consumer in increasing number
	batches       [][]string // composition of the batches in number order, when known
	lens          map[string]int
	mates         map[string]string
}

func keepPred(m int) func(string) bool {
	return func(id string) bool { return hid(id)%(2+m%3) != 0 }
}

func fragIDs(id string, L, minsize, length, overlap int) []string {
	if L <= minsize {
		return []string{id}
	}
	step := length - overlap
	var out []string
	for i := 0; i < L; i += step {
		end := i + length
		if end > L {
			end = L
		}
		last := false
		if L-end < step {
			end = L
			last = true
		}
		out = append(out, fmt.Sprintf("%s_sub[%d..%d]", id, i+1, end))
		if last {
			break
		}
	}
	return out
}

func identityArrival(a []int) bool {
	for i, v := range a {
		if i != v {
			return false
		}
	}
	return true
}

func filterIDs(ids []string, keep func(string) bool) []string {
	out := []string{}
	for _, id := range ids {
		if keep(id) {
			out = append(out, id)
		}
	}
	return out
}

func regroup(ids []string, size int) [][]string {
	var out [][]string
	for i := 0; i < len(ids); i += size {
		e := i + size
		if e > len(ids) {
			e = len(ids)
		}
		out = append(out, append([]string(nil), ids[i:e]...))
	}
	return out
}

func flattenB(b [][]string) []string {
	var out []string
	for _, x := range b {
		out = append(out, x...)
	}
	return out
}

func (p iterPlan) sourceModel() iterModel {
	m := iterModel{lens: map[string]int{}, mates: map[string]string{}}
	for _, s := range p.Streams {
		for _, r := range s.Recs {
			m.lens[r.ID] = len(r.Seq)
		}
	}
	batchesOf := func(s stream) [][]string {
		var out [][]string
		k := 0
		for _, sz := range s.Sizes {
			b := []string{}
			for j := 0; j < sz; j++ {
				b = append(b, s.Recs[k].ID)
				k++
			}
			out = append(out, b)
		}
		return out
	}
	switch p.Source {
	case srcInject:
		s := p.Streams[0]
		m.ids, m.ordered, m.arrivalSorted, m.batches = idsOf(s.Recs), true, identityArrival(s.Arrival), batchesOf(s)
	case srcBatchOver:
		s := p.Streams[0]
		m.ids, m.ordered, m.arrivalSorted = idsOf(s.Recs), true, true
		m.batches = regroup(m.ids, 1+p.SinkA)
	case srcPool:
		for _, s := range p.Streams {
			m.ids = append(m.ids, idsOf(s.Recs)...)
		}
	case srcFiles:
		for _, s := range p.Streams {
			m.ids = append(m.ids, idsOf(s.Recs)...)
		}
		// one reader: the files one after the other, each in its own batch-number order,
		// whatever the order in which the parsing workers of a file deliver its batches
		m.ordered = p.Readers == 1
	case srcConcat:
		for _, s := range p.Streams {
			m.ids = append(m.ids, idsOf(s.Recs)...)
		}
		m.ordered = true
	case srcPair:
		m.ids, m.ordered = idsOf(p.Streams[0].Recs), true
		for i, r := range p.Streams[0].Recs {
			m.mates[r.ID] = p.Streams[1].Recs[i].ID
		}
		m.arrivalSorted = true
		m.batches = regroup(m.ids, pairBatchSize)
	}
	return m
}

const pairBatchSize = 3

func (m iterModel) apply(st midStage) iterModel {
	switch st.Kind {
	case midSort:
		m.arrivalSorted = true
	case midRebatch:
		m.arrivalSorted = true
		if m.ordered {
			m.batches = regroup(m.ids, 1+st.A)
		} else {
			m.batches = nil
		}
	case midFilterEmpty:
		m.arrivalSorted = true
		if m.batches != nil {
			var nb [][]string
			for _, b := range m.batches {
				if len(b) > 0 {
					nb = append(nb, b)
				}
			}
			m.batches = nb
		}
	case midWorkerTag, midPipe:
		if 1+st.B%4 > 1 {
			m.arrivalSorted = false
		}
	case midLimitMemory:
		// identity: same batches, same numbers, same arrival order
	case midWorkerDrop, midSliceDrop, midWorkerErr:
		keep := keepPred(st.A)
		m.ids = filterIDs(m.ids, keep)
		if m.batches != nil {
			for i := range m.batches {
				m.batches[i] = filterIDs(m.batches[i], keep)
			}
		}
		if 1+st.B%4 > 1 {
			m.arrivalSorted = false
		}
	case midFilterOn, midFilterAnd:
		keep := keepPred(st.A)
		if st.Kind == midFilterAnd && len(m.mates) > 0 {
			mates := m.mates
			k0 := keep
			keep = func(id string) bool { return k0(id) && k0(mates[id]) }
		}
		m.ids = filterIDs(m.ids, keep)
		m.arrivalSorted = true
		if m.ordered {
			m.batches = regroup(m.ids, 1+st.C)
		} else {
			m.batches = nil
		}
	case midFragments:
		minsize, length, overlap := 10+st.A*4, 8+st.B*3, st.C
		var out []string
		for _, id := range m.ids {
			f := fragIDs(id, m.lens[id], minsize, length, overlap)
			out = append(out, f...)
		}
		m.ids = out
		m.arrivalSorted = true
		if m.ordered {
			m.batches = regroup(m.ids, 1+st.A)
		} else {
			m.batches = nil
		}
	case midCompleteFile:
		m.ordered = m.ordered && m.arrivalSorted
		m.arrivalSorted = true
		m.batches = nil
		if len(m.ids) > 0 && m.ordered {
			m.batches = [][]string{append([]string(nil), m.ids...)}
		}
	case midMerge:
		// one record per non-empty input batch (its first record survives); an output batch
		// gathers the records of 1+A consecutive input batches, empty ones included in the count
		if m.batches == nil {
			return m // not applicable (composition unknown): skipped when building too
		}
		size := 1 + st.A
		var nb [][]string
		for i := 0; i < len(m.batches); i += size {
			e := i + size
			if e > len(m.batches) {
				e = len(m.batches)
			}
			recs := []string{}
			for _, b := range m.batches[i:e] {
				if len(b) > 0 {
					recs = append(recs, b[0])
				}
			}
			if len(recs) > 0 {
				nb = append(nb, recs)
			}
		}
		m.ids = flattenB(nb)
		m.ordered = m.ordered && m.arrivalSorted
		if m.ordered {
			m.batches = nb
		} else {
			m.batches = nil
		}
	}
	return m
}

// ---- execution ---------------------------------------------------------------

type collected struct {
	orders []int
	ids    [][]string
	mates  [][]string
}

func collectFrom(it obiiter.IBioSequence, c *collected) {
	for it.Next() {
		b := it.Get()
		ids := []string{}
		mates := []string{}
		for _, s := range b.Slice() {
			ids = append(ids, s.Id())
			if s.IsPaired() {
				mates = append(mates, s.PairedWith().Id())
			} else {
				mates = append(mates, "")
			}
		}
		c.orders = append(c.orders, b.Order())
		c.ids = append(c.ids, ids)
		c.mates = append(c.mates, mates)
	}
}

func (c *collected) flat() (ids []string, mates []string, numbering string) {
	idx := make([]int, len(c.orders))
	for i := range idx {
		idx[i] = i
	}
	sort.SliceStable(idx, func(a, b int) bool { return c.orders[idx[a]] < c.orders[idx[b]] })
	for rank, i := range idx {
		if c.orders[i] != rank && numbering == "" {
			so := append([]int(nil), c.orders...)
			sort.Ints(so)
			numbering = fmt.Sprintf("output batch numbers %v are not 0..%d without gap or duplicate", so, len(idx)-1)
		}
		ids = append(ids, c.ids[i]...)
		mates = append(mates, c.mates[i]...)
	}
	return
}

func injectStream(s stream, source string) obiiter.IBioSequence {
	return inject(makeBatches(s.Recs, s.Sizes, source), s.Arrival)
}

type iterOutputs struct {
	outs   map[string]*collected
	loaded []string
	counts [3]int
	keys   map[string]string // distribute: output name by id
}

func runIterPlan(rc *RunCtx, p iterPlan, hasMerge []bool) (SimResult, *iterOutputs) {
	out := &iterOutputs{outs: map[string]*collected{}}
	res := rc.Sim(SimOpts{YieldDensity: rc.Sched.Choose(3)}, func() {
		obioptions.SetBatchSize(pairBatchSize)
		var it obiiter.IBioSequence
		switch p.Source {
		case srcInject:
			it = injectStream(p.Streams[0], "s0")
		case srcBatchOver:
			data := obiseq.MakeBioSequenceSlice()
			for _, r := range p.Streams[0].Recs {
				data = append(data, r.Bio())
			}
			it = obiiter.IBatchOver("s0", data, 1+p.SinkA)
		case srcPool:
			its := []obiiter.IBioSequence{}
			for i, s := range p.Streams {
				its = append(its, injectStream(s, fmt.Sprintf("s%d", i)))
			}
			it = its[0].Pool(its[1:]...)
		case srcConcat:
			its := []obiiter.IBioSequence{}
			for i, s := range p.Streams {
				its = append(its, injectStream(s, fmt.Sprintf("s%d", i)))
			}
			it = its[0].Concat(its[1:]...)
		case srcFiles:
			names := []string{}
			byName := map[string]stream{}
			for i, s := range p.Streams {
				n := fmt.Sprintf("file%d", i)
				names = append(names, n)
				byName[n] = s
			}
			reader := func(name string, options ...obiformats.WithOption) (obiiter.IBioSequence, error) {
				return injectStream(byName[name], name), nil
			}
			it = obiformats.ReadSequencesBatchFromFiles(names, reader, p.Readers)
		case srcPair:
			a := injectStream(p.Streams[0], "fwd")
			b := injectStream(p.Streams[1], "rev")
			it = a.PairTo(b)
		}
		for i, st := range p.Mids {
			nw := 1 + st.B%4
			keep := keepPred(st.A)
			pred := func(s *obiseq.BioSequence) bool { return keep(s.Id()) }
			tag := func(s *obiseq.BioSequence) (obiseq.BioSequenceSlice, error) {
				s.SetAttribute(fmt.Sprintf("t%d", i), 1)
				return obiseq.BioSequenceSlice{s}, nil
			}
			switch st.Kind {
			case midSort:
				it = it.SortBatches()
			case midRebatch:
				it = it.Rebatch(1 + st.A)
			case midFilterEmpty:
				it = it.FilterEmpty()
			case midWorkerTag:
				it = it.MakeIWorker(tag, false, nw)
			case midWorkerDrop:
				it = it.MakeIWorker(func(s *obiseq.BioSequence) (obiseq.BioSequenceSlice, error) {
					if pred(s) {
						return obiseq.BioSequenceSlice{s}, nil
					}
					return obiseq.BioSequenceSlice{}, nil
				}, false, nw)
			case midWorkerErr:
				it = it.MakeIWorker(func(s *obiseq.BioSequence) (obiseq.BioSequenceSlice, error) {
					if pred(s) {
						return obiseq.BioSequenceSlice{s}, nil
					}
					return nil, fmt.Errorf("record %s is refused by the worker", s.Id())
				}, false, nw)
			case midSliceDrop:
				it = it.MakeISliceWorker(func(sl obiseq.BioSequenceSlice) (obiseq.BioSequenceSlice, error) {
					o := obiseq.MakeBioSequenceSlice()
					for _, s := range sl {
						if pred(s) {
							o = append(o, s)
						}
					}
					return o, nil
				}, false, nw)
			case midFilterOn:
				it = it.FilterOn(pred, 1+st.C, nw)
			case midFilterAnd:
				it = it.FilterAnd(pred, 1+st.C, nw)
			case midFragments:
				it = it.Pipe(obiiter.IFragments(10+st.A*4, 8+st.B*3, st.C, 1+st.A, nw))
			case midPipe:
				it = it.Pipe(obiiter.WorkerPipe(tag, false, nw), obiiter.SliceWorkerPipe(obiseq.SeqToSliceWorker(nil, false), false, nw))
			case midCompleteFile:
				it = it.CompleteFileIterator()
			case midLimitMemory:
				if st.A == 5 && st.B >= 4 && pressureAffordable(p) {
					// memory stays above the limit for as long as the stage is prepared to wait:
					// the batch must then go on all the same
					it = it.LimitMemory(1e-12)
				} else {
					it = it.LimitMemory(1.0)
				}
			case midMerge:
				if hasMerge[i] {
					it = it.IMergeSequenceBatch("NA", obiseq.StatsOnDescriptions{}, 1+st.A)
				}
			}
		}
		switch p.Sink {
		case sinkCollect:
			c := &collected{}
			out.outs["out"] = c
			collectFrom(it, c)
		case sinkDivide:
			keep := keepPred(p.SinkA)
			ti, fi := it.DivideOn(func(s *obiseq.BioSequence) bool { return keep(s.Id()) }, 1+p.SinkB)
			ct, cf := &collected{}, &collected{}
			out.outs["true"], out.outs["false"] = ct, cf
			var wg simrt.WaitGroup
			wg.Add(2)
			simrt.Go("consume-true", func() { defer wg.Done(); collectFrom(ti, ct) })
			simrt.Go("consume-false", func() { defer wg.Done(); collectFrom(fi, cf) })
			wg.Wait()
		case sinkDistribute:
			class := obiseq.AnnotationClassifier("sample", "NA")
			d := it.Distribute(class, 1+p.SinkB)
			var wg simrt.WaitGroup
			var mu simrt.Mutex
			for {
				key, ok := simrt.Recv2(d.News())
				if !ok {
					break
				}
				o, err := d.Outputs(key)
				if err != nil {
					panic(err)
				}
				c := &collected{}
				mu.Lock()
				out.outs["key:"+class.Value(key)] = c
				mu.Unlock()
				wg.Add(1)
				simrt.Go("consume-key", func() { defer wg.Done(); collectFrom(o, c) })
			}
			wg.Wait()
		case sinkPeekSplit:
			// the pattern of WriteSequence and of the CSV writer: look at the first batch, push
			// it back, then let several workers consume the stream
			if it.Next() {
				it.PushBack()
			}
			var wg simrt.WaitGroup
			var mu simrt.Mutex
			c := &collected{}
			out.outs["out"] = c
			nw := 1 + p.SinkB
			for w := 0; w < nw; w++ {
				src := it
				if w > 0 {
					src = it.Split()
				}
				wg.Add(1)
				simrt.Go("split-consumer", func() {
					defer wg.Done()
					mine := &collected{}
					collectFrom(src, mine)
					mu.Lock()
					c.orders = append(c.orders, mine.orders...)
					c.ids = append(c.ids, mine.ids...)
					c.mates = append(c.mates, mine.mates...)
					mu.Unlock()
				})
			}
			wg.Wait()
		case sinkPairedWith:
			c := &collected{}
			out.outs["mates"] = c
			// as in the paired writers: several workers pass the batches on in completion order,
			// and the second file is written from the mates of what they pass on
			it = it.MakeIWorker(func(s *obiseq.BioSequence) (obiseq.BioSequenceSlice, error) {
				return obiseq.BioSequenceSlice{s}, nil
			}, false, 2+p.SinkB)
			collectFrom(it.PairedWith(), c)
		case sinkCopyTee:
			a, b := it.CopyTee()
			ca, cb := &collected{}, &collected{}
			out.outs["first"], out.outs["second"] = ca, cb
			var wg simrt.WaitGroup
			wg.Add(2)
			simrt.Go("consume-first", func() { defer wg.Done(); collectFrom(a, ca) })
			simrt.Go("consume-second", func() { defer wg.Done(); collectFrom(b, cb) })
			wg.Wait()
		case sinkLoad:
			_, sl := it.Load()
			for _, s := range sl {
				out.loaded = append(out.loaded, s.Id())
			}
		case sinkCount:
			v, r, n := it.Count(false)
			out.counts = [3]int{v, r, n}
		}
		obiiter.WaitForLastPipe()
	})
	return res, out
}

// pressureAffordable: under memory pressure LimitMemory spends 10 000 scheduling steps on every
// batch before letting it through; the plan must be small enough for the run to end within its
// step budget (at most 6 records, so at most 6 batches whatever the re-batching, and no
// fragmenting stage, which multiplies the records).
func pressureAffordable(p iterPlan) bool {
	n := 0
	for _, s := range p.Streams {
		n += len(s.Recs)
	}
	for _, m := range p.Mids {
		if m.Kind == midFragments {
			return false
		}
	}
	pressured := 0
	for _, m := range p.Mids {
		if m.Kind == midLimitMemory && m.A == 5 && m.B >= 4 {
			pressured++
		}
	}
	return n <= 6 && pressured <= 1
}

func runC03(rc *RunCtx) {
	p := drawIterPlan(rc.Plan, rc.Thorough())
	// model
	m := p.sourceModel()
	hasMerge := make([]bool, len(p.Mids))
	for i, st := range p.Mids {
		if st.Kind == midMerge {
			hasMerge[i] = m.batches != nil && len(m.mates) == 0
			if !hasMerge[i] {
				continue
			}
		}
		m = m.apply(st)
	}
	for i := range hasMerge {
		if hasMerge[i] && p.Sink == sinkDistribute {
			// merged records keep only the annotations their members share: the routing key
			// of a merged record is not modelled here
			p.Sink = sinkCollect
		}
	}
	rc.Out.Sample = p.describe()
	// probes from the plan
	for si, s := range p.Streams {
		if !identityArrival(s.Arrival) {
			rc.Probe("arrival_reordered")
		}
		for _, sz := range s.Sizes {
			if sz == 0 {
				rc.Probe("empty_batch_injected")
				break
			}
		}
		if len(s.Sizes) == 0 {
			rc.Probe("empty_stream")
			if p.Source == srcConcat && si == 0 {
				rc.Probe("concat_empty_first")
			}
			if p.Source == srcConcat && si > 0 && si < len(p.Streams)-1 {
				rc.Probe("concat_empty_middle")
			}
		}
	}
	res, out := runIterPlan(rc, p, hasMerge)
	desc := fmt.Sprint(p.describe())
	stages := []string{srcNames[p.Source]}
	for i, st := range p.Mids {
		if st.Kind == midMerge && !hasMerge[i] {
			continue
		}
		stages = append(stages, midNames[st.Kind])
	}
	stages = append(stages, sinkNames[p.Sink])
	rc.Out.Key = strings.Join(stages, ">") + "/" + res.Sig
	rc.Out.Nontrivial = res.Contended > 0 && len(m.lens) > 0
	rc.Log("plan=%s", desc)
	// class = violation kind / source combinator with the input features that matter; the
	// minimised replay names the smallest composition that fails
	feat := []string{}
	for si, st := range p.Streams {
		if len(st.Sizes) == 0 {
			if si == 0 {
				feat = append(feat, "empty-first-stream")
			} else {
				feat = append(feat, "empty-later-stream")
			}
		}
		for _, sz := range st.Sizes {
			if sz == 0 {
				feat = append(feat, "empty-batch")
				break
			}
		}
	}
	sort.Strings(feat)
	feat = dedup(feat)
	comp := srcNames[p.Source] + "[" + strings.Join(feat, ",") + "]"
	if !rc.Liveness(res, "C03/"+comp) {
		return
	}
	if res.Exited {
		rc.Violate("C03/crash/"+topFrame(res), "the pipeline ended the process on a legal input: %s\nplan: %s", describeExit(res), desc)
		return
	}
	check := func(name string, got []string, want []string, ordered bool) bool {
		if !equalStrings(sortedCopy(got), sortedCopy(want)) {
			rc.Violate("C03/lost-or-duplicated/"+comp, "output %q: records are not delivered exactly once: %s\nplan: %s", name, firstDiff(sortedCopy(got), sortedCopy(want)), desc)
			return false
		}
		if ordered && !equalStrings(got, want) {
			rc.Violate("C03/reordered/"+comp, "output %q: records are not in input order: %s\nplan: %s", name, firstDiff(got, want), desc)
			return false
		}
		return true
	}
	switch p.Sink {
	case sinkCollect, sinkPeekSplit:
		ids, mates, numbering := out.outs["out"].flat()
		if numbering != "" {
			rc.Violate("C03/batch-numbering/"+comp, "%s\nplan: %s", numbering, desc)
			return
		}
		if !check("out", ids, m.ids, m.ordered) {
			return
		}
		if len(m.mates) > 0 {
			for i, id := range ids {
				if mates[i] != m.mates[id] {
					rc.Violate("C03/mates-out-of-step/"+comp, "record %s is paired with %q, expected %q\nplan: %s", id, mates[i], m.mates[id], desc)
					return
				}
			}
		}
	case sinkDivide:
		keep := keepPred(p.SinkA)
		for _, side := range []string{"true", "false"} {
			ids, _, numbering := out.outs[side].flat()
			if numbering != "" {
				rc.Violate("C03/batch-numbering/"+comp, "output %s: %s\nplan: %s", side, numbering, desc)
				return
			}
			want := filterIDs(m.ids, func(id string) bool { return keep(id) == (side == "true") })
			if !check(side, ids, want, m.ordered) {
				return
			}
		}
	case sinkDistribute:
		sampleOf := map[string]string{}
		for _, s := range p.Streams {
			for _, r := range s.Recs {
				sampleOf[r.ID] = fmt.Sprint(r.Annot["sample"])
			}
		}
		wantBy := map[string][]string{}
		for _, id := range m.ids {
			base := id
			if k := strings.Index(id, "_sub["); k >= 0 {
				base = id[:k]
			}
			smp, ok := sampleOf[base]
			if !ok {
				smp = "NA"
			}
			wantBy["key:"+smp] = append(wantBy["key:"+smp], id)
		}
		gotKeys, wantKeys := []string{}, []string{}
		for k := range out.outs {
			gotKeys = append(gotKeys, k)
		}
		for k := range wantBy {
			wantKeys = append(wantKeys, k)
		}
		sort.Strings(gotKeys)
		sort.Strings(wantKeys)
		if !equalStrings(gotKeys, wantKeys) {
			rc.Violate("C03/distribute-keys/"+comp, "outputs %v, expected exactly the keys %v\nplan: %s", gotKeys, wantKeys, desc)
			return
		}
		for _, k := range gotKeys {
			ids, _, numbering := out.outs[k].flat()
			if numbering != "" {
				rc.Violate("C03/batch-numbering/"+comp, "output %s: %s\nplan: %s", k, numbering, desc)
				return
			}
			if !check(k, ids, wantBy[k], m.ordered) {
				return
			}
		}
	case sinkPairedWith:
		ids, _, numbering := out.outs["mates"].flat()
		if numbering != "" {
			rc.Violate("C03/batch-numbering/"+comp, "stream of the mates: %s\nplan: %s", numbering, desc)
			return
		}
		want := make([]string, len(m.ids))
		for i, id := range m.ids {
			want[i] = m.mates[id]
		}
		if check("mates", ids, want, m.ordered) && m.ordered {
			rc.Probe("mates_stream_in_step_with_reads")
		}
	case sinkCopyTee:
		for _, side := range []string{"first", "second"} {
			ids, _, numbering := out.outs[side].flat()
			if numbering != "" {
				rc.Violate("C03/batch-numbering/"+comp, "CopyTee output %s: %s\nplan: %s", side, numbering, desc)
				return
			}
			if !check("CopyTee "+side, ids, m.ids, m.ordered) {
				return
			}
		}
	case sinkLoad:
		check("Load", out.loaded, m.ids, m.ordered && m.arrivalSorted)
	case sinkCount:
		if out.counts[0] != len(m.ids) {
			rc.Violate("C03/lost-or-duplicated/"+comp, "Count reports %d records, expected %d\nplan: %s", out.counts[0], len(m.ids), desc)
		}
	}
}

func init() {
	register(&Property{
		ID:     "C03",
		Random: func(tier string) int { return map[string]int{"quick": 4000, "thorough": 300000}[tier] },
		Run:    runC03,
		Level:  "exploration",
		Rule:   "random compositions source > 0-4 stages > sink over the real combinators: sources inject (any partition incl. empty batches, any arrival permutation), IBatchOver, Pool and Concat of 2-3 streams (empty streams included), ReadSequencesBatchFromFiles with 1-3 concurrent readers, PairTo; stages SortBatches, Rebatch, FilterEmpty, MakeIWorker (tag / drop / error on some records), MakeISliceWorker, FilterOn, FilterAnd, IFragments, Pipe/Pipeline, CompleteFileIterator, IMergeSequenceBatch, LimitMemory, each with 1-4 workers; sinks collect, DivideOn, Distribute (consumer per News key), Load, Count, peek+PushBack+Split consumers, PairedWith (the stream of the mates, by batch number), CopyTee (two consumers); dense yields in obiiter; oracle = list model of every combinator (exactly-once, order when order-preserving, batch numbers 0..m-1, termination). distinct = distinct (set and order of combinators, schedule signature); non-trivial = at least one step with >=2 runnable tasks",
		Real:   []string{"every obiiter combinator named in the rule", "obiformats.ReadSequencesBatchFromFiles", "obiseq workers, classifiers, Subsequence, Merge, pairing", "iterator termination protocol (Add/Done/WaitAndClose, RegisterAPipe/WaitForLastPipe)"},
		Stub:   []string{"per-file readers of ReadSequencesBatchFromFiles (harness injectors)", "upstream producers (harness injector tasks)", "sync primitives and scheduler (simrt)"},
	})
}

func dedup(a []string) []string {
	out := a[:0]
	for i, x := range a {
		if i == 0 || x != a[i-1] {
			out = append(out, x)
		}
	}
	return out
}

// topFrame names the function in which a task panicked (or the fatal message's first words).
func topFrame(res SimResult) string {
	if res.Panic != "" {
		for _, l := range strings.Split(res.Panic, "\n") {
			l = strings.TrimSpace(l)
			if strings.HasPrefix(l, "git.metabarcoding.org/") {
				l = l[strings.LastIndex(l, "/")+1:]
				if k := strings.Index(l, "("); k > 0 {
					// keep receiver types: pkg.(*T).Method(...) -> strip only the argument list
					if j := strings.LastIndex(l, "("); j > 0 && !strings.HasSuffix(l[:j], ".") {
						l = l[:j]
					}
				}
				return strings.NewReplacer("(", "", ")", "", "*", "").Replace(l)
			}
		}
		return "panic"
	}
	w := strings.Fields(res.FatalMsg)
	if len(w) > 4 {
		w = w[:4]
	}
	return "fatal:" + strings.Join(w, "_")
}
