package harness

import (
	"bytes"
	"fmt"
	"os"
	"path/filepath"
	"sort"
	"strings"

	"git.metabarcoding.org/obitools/obitools4/obitools4/pkg/obiapat"
	"git.metabarcoding.org/obitools/obitools4/obitools4/pkg/obiseq"
	"git.metabarcoding.org/obitools/obitools4/obitools4/pkg/zverif/simrt"
)

// ---------------------------------------------------------------------------
// C07 — reverse complement, subsequence and copy: laws, and no shared mutable state over
// histories of copy / mutate / recycle on the shared pool
// ---------------------------------------------------------------------------

const c07Alphabet = "acgtrymkswbdhvn.-[]"

// the harness' own complement table (IUPAC), independent of obiseq._revcmpDNA
var c07Comp = map[byte]byte{
	'a': 't', 'c': 'g', 'g': 'c', 't': 'a', 'u': 'a',
	'r': 'y', 'y': 'r', 'm': 'k', 'k': 'm', 's': 's', 'w': 'w',
	'b': 'v', 'v': 'b', 'd': 'h', 'h': 'd', 'n': 'n',
	'.': '.', '-': '-', '[': ']', ']': '[',
}

func modelRC(s string) string {
	b := make([]byte, len(s))
	for i := 0; i < len(s); i++ {
		b[i] = c07Comp[s[len(s)-1-i]]
	}
	return string(b)
}

func modelRev(q []byte) []byte {
	if q == nil {
		return nil
	}
	b := make([]byte, len(q))
	for i := range q {
		b[i] = q[len(q)-1-i]
	}
	return b
}

type mval struct {
	seq  string
	qual []byte         // nil: none
	tag  string         // scalar attribute "t"
	nest map[string]int // nested map attribute "m"
	list []int          // slice-valued attribute "l"
	pmm  map[string]int // pairing_mismatches (position bearing)
	feat string         // feature table (as the GenBank / EMBL readers attach it)
}

func featDigest(f string) string {
	if f == "" {
		return "-"
	}
	return fmt.Sprintf("%d:%s", len(f), sha(f)[:8])
}

// featText: a feature table of 300-700 bytes (SetFeatures recycles buffers of 300 bytes and more).
func featText(t *simrt.Tape) string {
	var b strings.Builder
	n := 300 + t.Choose(400)
	for i := 0; b.Len() < n; i++ {
		fmt.Fprintf(&b, "FT   misc_feature    %d..%d\nFT                   /note=\"f%d-%d\"\n", 1+t.Choose(50), 60+t.Choose(50), i, t.Choose(1000))
	}
	return b.String()
}

func (m mval) clone() mval {
	c := mval{seq: m.seq, tag: m.tag, feat: m.feat}
	if m.qual != nil {
		c.qual = append([]byte{}, m.qual...)
	}
	if m.nest != nil {
		c.nest = map[string]int{}
		for k, v := range m.nest {
			c.nest[k] = v
		}
	}
	if m.pmm != nil {
		c.pmm = map[string]int{}
		for k, v := range m.pmm {
			c.pmm[k] = v
		}
	}
	if m.list != nil {
		c.list = append([]int{}, m.list...)
	}
	return c
}

func (m mval) String() string {
	q := "-"
	if len(m.qual) > 0 {
		q = fmt.Sprint(m.qual)
	}
	return fmt.Sprintf("seq=%s|q=%s|t=%s|m=%s|pmm=%s|l=%v|f=%s", m.seq, q, m.tag, mapString(m.nest), mapString(m.pmm), m.list, featDigest(m.feat))
}

func observe(s *obiseq.BioSequence) string {
	q := "-"
	if s.HasQualities() {
		q = fmt.Sprint([]byte(s.Qualities()))
	}
	tag := ""
	if v, ok := s.GetAttribute("t"); ok {
		tag = fmt.Sprint(v)
	}
	nest, _ := s.GetIntMap("m")
	pmm, _ := s.GetIntMap("pairing_mismatches")
	var list []int
	if v, ok := s.GetAttribute("l"); ok {
		if l, ok := v.([]int); ok && l != nil {
			list = l
		}
	}
	return fmt.Sprintf("seq=%s|q=%s|t=%s|m=%s|pmm=%s|l=%v|f=%s", s.String(), q, tag, mapString(nest), mapString(pmm), list, featDigest(s.Features()))
}

type handle struct {
	obj   *obiseq.BioSequence
	val   mval
	alive bool
	name  string
}

// mismatch key in the format the pairing code uses: "(a:30)->(c:12)"
func pmmKey(t *simrt.Tape) string {
	return fmt.Sprintf("(%c:%02d)->(%c:%02d)", dna[t.Choose(4)], 10+t.Choose(30), dna[t.Choose(4)], 10+t.Choose(30))
}

func revPmmKey(k string) string {
	b := []byte(k)
	b[1], b[9] = c07Comp[b[9]], c07Comp[b[1]]
	b[3], b[4], b[11], b[12] = b[11], b[12], b[3], b[4]
	return string(b)
}

type c07Violation struct{ class, msg string }

// runHistory applies a random history of operations, checking every live handle after every
// operation.  Draws come from tp (the task's own tape derived from the plan).
func runHistory(tp *simrt.Tape, task int, nops int, fail func(class, msg string)) {
	var hs []*handle
	next := 0
	check := func(after string) bool {
		for _, h := range hs {
			if !h.alive {
				continue
			}
			if got := observe(h.obj); got != h.val.String() {
				fail("C07/state-changed-behind-its-back", fmt.Sprintf("task %d, after %s: %s is\n  %s\nbut its own history says\n  %s", task, after, h.name, clip(got, 400), clip(h.val.String(), 400)))
				return false
			}
		}
		return true
	}
	newSeq := func() string {
		var n int
		switch tp.Choose(7) {
		case 0:
			n = 1
		case 1:
			n = 2
		case 6:
			n = 0 // an empty sequence is a legal object too
		case 2:
			n = 1000 + tp.Choose(120) // crosses the pool's 1024-byte class
		default:
			n = 3 + tp.Choose(60)
		}
		return genSeq(tp, n, n, c07Alphabet)
	}
	pick := func() *handle {
		alive := []*handle{}
		for _, h := range hs {
			if h.alive {
				alive = append(alive, h)
			}
		}
		if len(alive) == 0 {
			return nil
		}
		return alive[tp.Choose(len(alive))]
	}
	add := func(obj *obiseq.BioSequence, v mval, how string) *handle {
		// a derived object must be a new object: handing back a live one is shared state
		for _, h := range hs {
			if h.alive && h.obj == obj {
				fail("C07/derived-object-is-its-source", fmt.Sprintf("task %d: %s returned the live object %s itself instead of a new sequence", task, how, h.name))
				return h
			}
		}
		h := &handle{obj: obj, val: v, alive: true, name: fmt.Sprintf("h%d(%s)", next, how)}
		next++
		hs = append(hs, h)
		return h
	}
	for op := 0; op < nops; op++ {
		h := pick()
		kind := tp.Choose(11)
		if h == nil {
			kind = 0
		}
		desc := ""
		switch kind {
		case 0: // new
			s := newSeq()
			v := mval{seq: s}
			var obj *obiseq.BioSequence
			if tp.Choose(2) == 1 {
				v.qual = genQual(tp, len(s))
				obj = obiseq.NewBioSequenceWithQualities("x", []byte(s), "", append([]byte{}, v.qual...))
			} else {
				obj = obiseq.NewBioSequence("x", []byte(s), "")
			}
			if tp.Choose(2) == 1 {
				v.tag = "v0"
				obj.SetAttribute("t", "v0")
			}
			// a map-valued attribute as the code builds it in memory (map[string]int) or as the
			// readers deliver it from a JSON header (map[string]interface{} of float64)
			asRead := func(m map[string]int) any {
				switch tp.Choose(3) {
				case 1:
					g := map[string]interface{}{}
					for k, x := range m {
						g[k] = float64(x)
					}
					return g
				case 2:
					g := map[string]interface{}{}
					for k, x := range m {
						g[k] = x
					}
					return g
				}
				c := map[string]int{}
				for k, x := range m {
					c[k] = x
				}
				return c
			}
			if tp.Choose(3) == 2 {
				v.nest = map[string]int{"a": 1, "b": 2}
				obj.SetAttribute("m", asRead(v.nest))
			}
			if tp.Choose(3) == 2 {
				v.list = []int{2, 5, 9}
				obj.SetAttribute("l", []int{2, 5, 9})
			}
			if tp.Choose(3) == 2 {
				v.feat = featText(tp)
				obj.SetFeatures([]byte(v.feat)) // the sequence owns the buffer from now on
			}
			if tp.Choose(3) == 2 && len(s) > 2 {
				v.pmm = map[string]int{}
				for k := 0; k <= tp.Choose(2); k++ {
					v.pmm[pmmKey(tp)] = 1 + tp.Choose(len(s)-1)
				}
				obj.SetAttribute("pairing_mismatches", asRead(v.pmm))
			}
			add(obj, v, "new")
			desc = "new"
		case 1: // copy
			c := h.obj.Copy()
			add(c, h.val.clone(), "copy of "+h.name)
			desc = "Copy(" + h.name + ")"
		case 2, 3: // subsequence
			L := len(h.val.seq)
			if L == 0 {
				continue // no window in an empty sequence
			}
			from := tp.Choose(L)
			to := from + 1 + tp.Choose(L-from)
			circular := false
			if tp.Choose(4) == 3 && L > 1 {
				circular = true
				to = tp.Choose(L) + 1 // may wrap: to <= from
			}
			sub, err := h.obj.Subsequence(from, to, circular)
			desc = fmt.Sprintf("Subsequence(%s,%d,%d,%v)", h.name, from, to, circular)
			if err != nil {
				fail("C07/subsequence-error", fmt.Sprintf("task %d: %s returned %v on a legal window of a %d-long sequence", task, desc, err, L))
				return
			}
			v := mval{tag: h.val.tag}
			if h.val.nest != nil {
				v.nest = h.val.clone().nest
			}
			if h.val.list != nil {
				v.list = append([]int{}, h.val.list...)
			}
			dbl := h.val.seq + h.val.seq
			end := to
			if to <= from {
				end = to + L
			}
			v.seq = dbl[from:end]
			if h.val.qual != nil {
				dq := append(append([]byte{}, h.val.qual...), h.val.qual...)
				v.qual = append([]byte{}, dq[from:end]...)
			}
			if h.val.pmm != nil {
				// position-bearing annotations follow the window (positions are 1-based);
				// for a wrapped circular window [from..L]+[1..to] the second part comes after
				// the first one
				v.pmm = map[string]int{}
				for k, p := range h.val.pmm {
					switch {
					case to > from && p > from && p <= to:
						v.pmm[k] = p - from
					case to <= from && p > from:
						v.pmm[k] = p - from
					case to <= from && p <= to:
						v.pmm[k] = p + L - from
					}
				}
			}
			v.feat = sub.Features() // whether a window keeps the feature table is not stated: whatever it has must stay
			add(sub, v, "sub of "+h.name)
		case 4, 5: // reverse complement
			inplace := kind == 5
			r := h.obj.ReverseComplement(inplace)
			desc = fmt.Sprintf("ReverseComplement(%s,inplace=%v)", h.name, inplace)
			v := h.val.clone()
			v.seq = modelRC(h.val.seq)
			v.qual = modelRev(h.val.qual)
			if h.val.pmm != nil {
				v.pmm = map[string]int{}
				for k, p := range h.val.pmm {
					v.pmm[revPmmKey(k)] = len(h.val.seq) - p + 1
				}
			}
			if inplace {
				if r != h.obj {
					fail("C07/inplace-revcomp-returned-another-object", fmt.Sprintf("task %d: %s did not return the sequence it was applied to", task, desc))
					return
				}
				h.val = v
			} else {
				add(r, v, "rc of "+h.name)
			}
		case 6: // mutate sequence
			s := newSeq()
			h.obj.SetSequence([]byte(strings.ToUpper(s)))
			h.val.seq = s
			if h.val.qual != nil {
				h.val.qual = genQual(tp, len(s))
				h.obj.SetQualities(append([]byte{}, h.val.qual...))
			}
			h.val.pmm = nil
			h.obj.RemoveAttribute("pairing_mismatches")
			desc = "SetSequence(" + h.name + ")"
		case 7: // append
			x := genSeq(tp, 1, 5, "acgt")
			h.obj.Write([]byte(x))
			h.val.seq += x
			if h.val.qual != nil {
				q := genQual(tp, len(x))
				h.obj.WriteQualities(q)
				h.val.qual = append(h.val.qual, q...)
			}
			desc = "Write(" + h.name + ")"
		case 8: // annotations
			h.obj.SetAttribute("t", fmt.Sprintf("v%d", op))
			h.val.tag = fmt.Sprintf("v%d", op)
			if m, ok := h.obj.GetAttribute("m"); ok {
				// in-place edit of a nested map
				if mm, ok := m.(map[string]int); ok {
					mm["a"] += 10
					h.val.nest["a"] += 10
				}
			}
			if l, ok := h.obj.GetAttribute("l"); ok {
				// in-place edit of an element of a slice-valued annotation
				if ll, ok := l.([]int); ok && len(ll) > 0 {
					ll[0] += 100
					h.val.list[0] += 100
				}
			}
			desc = "SetAttribute(" + h.name + ")"
			if tp.Choose(3) == 0 {
				h.val.feat = featText(tp)
				h.obj.SetFeatures([]byte(h.val.feat))
				desc += "+SetFeatures"
			}
		case 9: // recycle
			h.obj.Recycle()
			h.alive = false
			desc = "Recycle(" + h.name + ")"
			if tp.Choose(4) == 3 {
				// a second Recycle of the same object gives nothing more back to the pools
				h.obj.Recycle()
				desc += " twice"
			}
		case 10: // pool churn by unrelated users
			for k := 0; k < 1+tp.Choose(3); k++ {
				b := obiseq.GetSlice(1 + tp.Choose(400))
				b = append(b, bytes.Repeat([]byte{'z'}, 1+tp.Choose(cap(b)))...)
				obiseq.RecycleSlice(&b)
			}
			desc = "GetSlice/RecycleSlice churn"
		}
		simrt.Yield()
		if !check(desc) {
			return
		}
	}
}

// c07Script: the same laws through the Lua binding of obiscript - a script that asks for the
// reverse complement and a window of every record and goes on using the record itself.
const c07Lua = `
function worker(sequence)
    local rc = sequence:reverse_complement()
    sequence:attribute("rc", rc:sequence())
    sequence:attribute("self", sequence:sequence())
    if sequence:len() >= 4 then
        local sub = sequence:subsequence(1, 3)
        sequence:attribute("sub", sub:sequence())
        sequence:attribute("subrc", sub:reverse_complement():sequence())
        sequence:attribute("self2", sequence:sequence())
    end
    return sequence
end
`

func c07Script(rc *RunCtx, t *simrt.Tape) {
	n := 3 + t.Choose(30)
	fastq := t.Choose(2) == 1
	recs := genRecs(t, n, 0, fastq, 1, 60)
	for i := range recs {
		recs[i].Annot, recs[i].Def = map[string]any{"count": 1 + t.Choose(3)}, ""
		if t.Choose(3) == 2 {
			b := []byte(recs[i].Seq)
			b[t.Choose(len(b))] = "ryswkmbdhvn"[t.Choose(11)]
			recs[i].Seq = string(b)
		}
	}
	p := drawParCfg(t, n)
	dir := filepath.Join(rc.Dir, fmt.Sprintf("s%d", rc.Index))
	os.MkdirAll(dir, 0755)
	defer cleanup(dir)
	in := filepath.Join(dir, "in.fastx")
	if fastq {
		os.WriteFile(in, fastqText(recs, true), 0644)
	} else {
		os.WriteFile(in, fastaText(recs, true), 0644)
	}
	os.WriteFile(filepath.Join(dir, "laws.lua"), []byte(c07Lua), 0644)
	out := filepath.Join(dir, "out.fastx")
	args := append(p.cpuArgs(), "-S", filepath.Join(dir, "laws.lua"), "-o", out, in)
	rc.Out.Sample = map[string]any{"stage": "obiscript (Lua binding)", "records": n, "config": p.String()}
	co := rc.RunCmd(CmdSpec{Name: "obiscript", Args: args, Dir: dir, PoolPolicy: p.Pool, YieldDensity: p.Yield, StderrNull: p.ErrNull})
	rc.Out.Nontrivial = co.Contended > 0
	rc.Out.Key = fmt.Sprintf("script/%d/%s/%s", n, p, co.Sig)
	rc.Probe("lua_binding_stage")
	if !rc.cmdMustSucceed(co, "C07/lua", "obiscript with the laws script ("+p.String()+")") {
		return
	}
	raw, _ := os.ReadFile(out)
	got, err := parseObiFastx(raw)
	if err != nil {
		rc.Violate("C07/lua/unparsable-output", "%v", err)
		return
	}
	if len(got) != len(recs) {
		rc.Violate("C07/lua/records-differ", "%d records out, %d in", len(got), len(recs))
		return
	}
	for i, g := range got {
		r := recs[i]
		e := irecOf(r)
		if g.ID != r.ID || g.Seq != r.Seq || g.Qual != e.Qual {
			rc.Violate("C07/lua/source-changed-by-its-reverse-complement", "record %s: the script asked for its reverse complement and a window and returned the record itself, which comes out as id=%s seq=%s qual=%q instead of seq=%s qual=%q",
				r.ID, g.ID, g.Seq, g.Qual, r.Seq, e.Qual)
			return
		}
		want := map[string]string{"rc": modelRC(r.Seq), "self": r.Seq}
		if len(r.Seq) >= 4 {
			want["sub"] = r.Seq[1:3]
			want["subrc"] = modelRC(r.Seq[1:3])
			want["self2"] = r.Seq
		}
		for _, k := range sortedKeys(want) {
			if fmt.Sprint(g.Annot[k]) != want[k] {
				rc.Violate("C07/lua/law-"+k, "record %s (%s): %s = %v, expected %s", r.ID, r.Seq, k, g.Annot[k], want[k])
				return
			}
		}
	}
}

func runC07(rc *RunCtx) {
	t := rc.Plan
	if t.Choose(40) == 7 {
		c07Script(rc, t)
		return
	}
	ntasks := 1 + t.Choose(3)
	nops := 4 + t.Choose(22)
	seeds := make([]uint64, ntasks)
	for i := range seeds {
		seeds[i] = uint64(t.Choose(1 << 30))
	}
	pool := t.Choose(3) // LIFO / FIFO / random reuse: stale aliases must show
	var viol *c07Violation
	var mu simrt.Mutex
	fail := func(class, msg string) {
		mu.Lock()
		if viol == nil {
			viol = &c07Violation{class, msg}
		}
		mu.Unlock()
	}
	rc.Out.Sample = map[string]any{"tasks": ntasks, "ops_per_task": nops, "pool_policy": pool}
	res := rc.Sim(SimOpts{PoolPolicy: pool, YieldDensity: t.Choose(3)}, func() {
		var wg simrt.WaitGroup
		for i := 0; i < ntasks; i++ {
			i := i
			wg.Add(1)
			simrt.Go(fmt.Sprintf("history-%d", i), func() {
				defer wg.Done()
				runHistory(simrt.NewTape(seeds[i]), i, nops, fail)
			})
		}
		wg.Wait()
	})
	rc.Out.Nontrivial = res.Probes["pool_reuse"] > 0
	rc.Out.Key = fmt.Sprintf("%d/%d/%v/%s", ntasks, nops, seeds, res.Sig)
	if !rc.Liveness(res, "C07") {
		return
	}
	if res.Exited {
		rc.Violate("C07/crash/"+topFrame(res), "a history of legal operations crashed: %s", describeExit(res))
		return
	}
	if viol != nil {
		rc.Violate(viol.class, "%s", viol.msg)
	}
}

// static part: the complement tables agree with the harness' independent table
func c07TableCheck(rc *RunCtx) {
	// the C table behind primer patterns (obiapat): complementing a pattern must be the reverse
	// complement of its text, symbol by symbol
	for _, c := range []byte("acgtrymkswbdhvn") {
		pat := "acgtac" + string(c) + "ttgcaa"
		ap, err := obiapat.MakeApatPattern(pat, 0, false)
		if err != nil {
			rc.Violate("C07/complement-table/obiapat", "cannot build pattern %s: %v", pat, err)
			return
		}
		cp, err := ap.ReverseComplement()
		if err != nil {
			rc.Violate("C07/complement-table/obiapat", "cannot complement pattern %s: %v", pat, err)
			return
		}
		if got, want := strings.ToLower(cp.String()), modelRC(pat); got != want {
			rc.Violate("C07/complement-table/obiapat", "reverse complement of pattern %s is %s, expected %s", pat, got, want)
			return
		}
	}
	syms := []byte(c07Alphabet)
	sort.Slice(syms, func(i, j int) bool { return syms[i] < syms[j] })
	for _, c := range syms {
		s := obiseq.NewBioSequence("x", []byte{c}, "")
		got := s.ReverseComplement(true).String()
		if got != string(c07Comp[c]) {
			rc.Violate("C07/complement-table", "complement of %q is %q, expected %q", c, got, c07Comp[c])
			return
		}
	}
}

func init() {
	register(&Property{
		ID:     "C07",
		Random: func(tier string) int { return map[string]int{"quick": 6000, "thorough": 400000}[tier] },
		Run: func(rc *RunCtx) {
			if rc.Index == 0 {
				c07TableCheck(rc)
				if rc.Out.Status != "ok" {
					return
				}
			}
			runC07(rc)
		},
		Level: "exploration",
		Rule:  "each case = 1-3 tasks sharing the deterministic, poisoning sequence pool (LIFO / FIFO / random reuse), each applying a random history of 4-25 operations on its own handles: NewBioSequence[WithQualities] over the full IUPAC alphabet incl. . - [ ] (lengths 1, 2, 3-62, 1000-1119), Copy, Subsequence (all windows, circular wrap), ReverseComplement (in place or not), SetSequence, Write, SetQualities, SetAttribute, in-place edit of a nested map annotation, Recycle, and GetSlice/RecycleSlice churn; after every operation every live handle is compared with an immutable-string reference model built with an independent complement table. distinct = distinct (task count, history seeds, schedule signature); non-trivial = the pool handed a recycled buffer to somebody during the run",
		Real:  []string{"obiseq.BioSequence: Copy, Subsequence, ReverseComplement, SetSequence, Write, SetQualities, annotations", "obiseq pool functions (GetSlice, CopySlice, RecycleSlice, GetAnnotation, RecycleAnnotation)"},
		Stub:  []string{"sync.Pool (simrt.Pool: deterministic reuse policy, recycled byte slices overwritten with 0xDB)", "scheduler and sync primitives (simrt)"},
	})
}
