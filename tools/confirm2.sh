#!/bin/sh
# usage: confirm2.sh <worktree> <k> <pkgdir:testfile>... -- <regex>
# copies each demo test file into its package dir, runs it without and with the change, then the baseline
wt=$1; k=$2; shift 2
export GOFLAGS=-mod=mod GOWORK=off GOPROXY=off
cd $wt && git checkout -q -- . && git clean -fdq -e _seeded
pkgs=""; files=""
while [ "$1" != "--" ]; do d=${1%%:*}; f=${1##*:}; cp _seeded/$k/demo/$f $d/; files="$files $d/$f"; pkgs="$pkgs ./$d/"; shift; done; shift
rx=$1
echo "--- without the change"; go test -vet=off -count=1 -run "$rx" $pkgs 2>&1 | grep -E "^(ok|FAIL|--- FAIL|panic)" | head -6
git apply _seeded/$k/patch.diff || { echo "PATCH DOES NOT APPLY"; rm -f $files; exit 1; }
echo "--- with the change"; go test -vet=off -count=1 -run "$rx" $pkgs 2>&1 | grep -E "^(ok|FAIL|--- FAIL|panic)" | head -6
rm -f $files
echo "--- build+baseline with the change"; go build ./pkg/... ./cmd/obitools/... 2>&1 | grep -E "^[a-z./_A-Z0-9]+\.go:[0-9]+" | head -3; go test -vet=off -count=1 ./pkg/... 2>&1 | grep -E "^(--- FAIL)" | tr '\n' ' '; echo
git checkout -q -- . && git clean -fdq -e _seeded
