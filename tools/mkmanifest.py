#!/usr/bin/env python3
"""Regenerates /verif/MANIFEST.json from the table below (kept in one place so that the
claimed / not-applicable split never drifts from what vcheck implements)."""
import json, os, sys

ROOT = os.path.dirname(os.path.dirname(os.path.abspath(__file__)))

CLAIMED = {
    "C04": dict(
        level="exploration",
        design="DESIGN.md 4 (C04)",
        technique="deterministic simulation: seeded scheduler over the real writer goroutines, enumerated arrival permutations (n<=6) + empty-batch subsets, simulated output endpoint, independent re-parse oracle",
        text="Every arrival order of batch numbers (exhaustive up to 6 batches, sampled to 12), every subset of empty batches (exhaustive up to 4), 1-4 formatting workers and seeded interleavings are run through the real FASTA/FASTQ/JSON/CSV writers, the format-guessing WriteSequence entry point and the real re-sequencing goroutine, on streams the writer owns (closed once, after the last write) or does not own (flushed, never closed), plain or gzip; the bytes received by a simulated endpoint are compared with the in-order concatenation and re-parsed by independent parsers (encoding/json, encoding/csv, a 20-line FASTA/FASTQ reader). Exploration, not proof: exhaustive only inside the named sub-spaces.",
        note="Trusted: the instrumenter (adds scheduling points only), simrt sync replacements, Go's encoding/json and encoding/csv as reference parsers. Format*Batch is used as a pure function to obtain per-batch text (the property is about order and exactly-once, not about formatting).",
    ),
}

CLAIMED["C18"] = dict(
    level="fault_enumeration",
    design="DESIGN.md 4 (C18)",
    technique="deterministic simulation with fault injection: simulated output endpoint failing at every byte offset / at Close, under the seeded scheduler, outcome classification fatal vs silent loss",
    text="A write fault (short count + sticky error) is injected at every absolute byte offset of a small output and at stratified offsets of outputs up to >64 KiB, and a Close fault, below the real bufio/pgzip stack of the real FASTA/FASTQ/JSON/CSV writers, for varied arrival orders, worker counts and seeded schedules; a run must end in a captured non-zero exit whenever the fault fired. Enumeration of the fault space on a fixed corpus, sampling beyond it.",
    note="Trusted: SimWriteCloser as a model of a failing file (short write + error, error sticky; Close error after release). The command stage runs the real obiconvert / obicsv / obigrep mains with /dev/full as -o, as stdout and as --save-discarded; the simulated process ends when main returns, so a failure reported only after main has left is a violation.",
)

CLAIMED["C01"] = dict(
    level="exploration",
    design="DESIGN.md 4 (C01)",
    technique="deterministic simulation: simulated input endpoint (read sizes, zero reads, EOF-with-data), chunk-buffer size as a per-run knob swept over every cut position, seeded scheduler over chunk reader / parser workers / re-sequencer, generator ground truth + cross-configuration equality",
    text="Generated FASTA/FASTQ/GenBank/EMBL files whose records are the ground truth are read through the real chunk splitter, chunk parsers, Read* functions and (for the transport stage) the real codec detection and decompressors, with the read-buffer size swept over every cut position of a fixed corpus and sampled elsewhere, 1-4 parser workers racing on the chunk channel under a seeded scheduler and adversarial read sizes; delivered records (ordered by batch number) must equal the ground truth and the records of a one-chunk/one-worker reference configuration, batch numbers must be 0..n-1, and the run must terminate.",
    note="Trusted: the generator's idea of a well-formed file (conservative shapes only), the instrumenter, simrt. The buffer-size knob replaces the 1 MiB / 128 MiB constants (DESIGN.md 3.3). A pipe is not simulated (a C read(2) on a pipe is not durably blocked); the stdin transport, i.e. the C kseq reader, is reached by redirecting a regular file on fd 0 of the simulated obiconvert main, and whole records are compared on every transport.",
)
CLAIMED["C17"] = dict(
    level="fault_enumeration",
    design="DESIGN.md 4 (C17)",
    technique="deterministic simulation with fault injection: truncation at every byte, bit flips, read error after k bytes on a simulated input endpoint under the real codec/sniffer/reader stack; outcome classification fatal vs silent acceptance",
    text="Every truncation point, one or all bit flips per byte and a read error after every k bytes (arriving alone or in the same Read as the last bytes) are injected into gzip, bzip2, xz and zstd images of FASTA/FASTQ files (exhaustively on 8 small images, sampled on generated files of all four formats), under the real Buf / sniffer / Read* stack and a seeded scheduler; the run must end in a fatal, a crash or a returned error, or - for a bit flip only - deliver every record unchanged. Violations are split by whether the decompression library itself notices the damage.",
    note="Trusted: SimReader fault model; the harness transcribes the 12-line format dispatch of ReadSequencesFromFile for the library stage. Third-party decoders that return a clean EOF on some truncations or flips are recorded as known findings (decoder-silent classes). The command stage adds truncated / flipped files through the sniffer, through an explicit --fasta/--fastq format and through fd 0 (kseq), and real read(2) errors on fd 0 (a directory, a reset socket).",
)

CLAIMED["C03"] = dict(
    level="exploration",
    design="DESIGN.md 4 (C03)",
    technique="deterministic simulation: random compositions of the real stream combinators under a seeded scheduler with dense yields, injected batch partitions and arrival permutations, list-model oracle (exactly-once, order, batch numbering, termination)",
    text="Random source > stages > sink compositions of the real obiiter combinators are run with every kind of batch partition (empty batches and empty streams included), arrival permutation, 1-4 workers per stage and seeded interleavings (sub-statement yields inside obiiter and the pools); each output is compared with a list model of the composition: exactly-once as a multiset, input order for order-preserving chains, batch numbers 0..m-1 without gap or duplicate, mates in step, and termination (scheduler-detected deadlock).",
    note="Trusted: the list models (filter = list filter, rebatch = regroup, distribute = stable partition, pool = multiset union, concat = concatenation, fragments = window arithmetic). Not modelled, stated in DESIGN.md: MakeIConditionalWorker (drop-or-keep semantics of unselected records is not documented), LimitMemory (depends on runtime.MemStats), CopyTee (unused), Speed (identity when stderr is not a terminal).",
)

CLAIMED["C05"] = dict(
    level="exploration",
    design="DESIGN.md 4 (C05)",
    technique="deterministic simulation of the real command mains in child processes: seeded scheduler, worker-count/batch-size/chunk-size knobs, deterministic poisoning buffer pool, tape-driven map order; byte comparison against a reference configuration",
    text="For generated inputs and functional options of the ten record-wise commands, the real main of the command is executed twice inside the simulator (one OS process per execution): a reference configuration and a drawn configuration of --max-cpu, --batch-size, scheduling policy, pool reuse policy with poisoning of recycled buffers, dense-yield density, chunk-buffer size and map iteration order; all output files must be byte-identical (and a run that the reference rejects must be rejected too).",
    note="Trusted: the reference configuration's output is not assumed correct (C03/C16 decide that), only equal. GOMAXPROCS is irrelevant by construction (one task runs at a time); the determinism self-test checks that claim.",
)

CLAIMED["C06"] = dict(
    level="exploration",
    design="DESIGN.md 4 (C06)",
    technique="deterministic simulation of the real obiuniq main (child process, real temporary chunk files) under a seeded scheduler; reference group-by model compared as a set; input permutation, chunk count, memory/disk and worker counts as drawn configuration",
    text="Generated multisets of records (duplicates, one-base variants, counts, category and merge attributes present, absent or already merged) are dereplicated by the real obiuniq main under seeded schedules, in memory and on disk (real chunk files written and read back inside the simulated run), for drawn chunk counts, worker counts, batch sizes and input permutations; the output set must equal a reference group-by: one record per key, summed counts, summed merged maps, singleton rule, total count conserved.",
    note="Trusted: the reference group-by (40 lines), the harness' FASTA/JSON-header reader (encoding/json). The kernel file system is real and fault-free here. The obidemerge round trip is checked by the reference model only indirectly (merged maps are exact).",
)

CLAIMED["C13"] = dict(
    level="exploration",
    design="DESIGN.md 4 (C13)",
    technique="deterministic simulation of the real obiclean main (child processes) with sub-statement scheduling points splitting unsynchronised read-modify-write sequences; run-against-run comparison with a non-preempted 2-worker reference and a brute-force one-difference graph",
    text="Generated data sets (samples x stars and chains of one-difference variants, abundance ties) are cleaned by the real obiclean main under seeded schedules with dense yields inside obiclean/graph.go (x.f++ on shared nodes becomes load / scheduling point / store), for worker counts 1..8, distances 1..3, ratios and -H; every obiclean_* annotation must equal that of a 2-worker run without preemption, and for the default distance and ratio the status, head flag and mutations must match an independent brute-force edit-distance-one graph.",
    note="Trusted: the brute-force one-difference test (15 lines), the lost-update model of an unsynchronised increment (DESIGN.md 3.3). Weights are compared run against run, not re-derived.",
)

CLAIMED["C07"] = dict(
    level="exploration",
    design="DESIGN.md 4 (C07)",
    technique="deterministic simulation of operation histories by several tasks on the shared, deterministic, poisoning sequence pool under a seeded scheduler; immutable-string reference model with an independent complement table checked after every operation",
    text="1-3 simulated tasks apply random histories of new / Copy / Subsequence (all windows, circular) / ReverseComplement (in place or not) / SetSequence / Write / SetQualities / SetAttribute / nested-map edit / Recycle / pool churn to their own handles while sharing the pool, whose reuse policy is drawn and whose recycled buffers are poisoned; after every operation every live handle must equal an immutable reference value (reverse complement by an independent IUPAC table, windows of x+x, mirrored qualities, transformed position-bearing annotations). The algebraic laws hold by construction of the model; the history half (no shared mutable state) is what the simulation decides.",
    note="Trusted: the reference model (strings), the harness' complement table. The position transform of annotations is checked for linear windows and reverse complements only.",
)

CLAIMED["C16"] = dict(
    level="exploration",
    design="DESIGN.md 4 (C16)",
    technique="deterministic simulation of the real command mains (child processes) under seeded schedules and drawn worker/batch configurations; independent reference interpreter of a stated option subset as oracle (kept / discarded / edited records, routing, mate ranks)",
    text="Generated records and drawn option subsets (single, pairs, larger, repeated options, boundary values) are run through the real obigrep, obiannotate, obidistribute and obimultiplex mains under seeded schedules and drawn --max-cpu / --batch-size; a reference interpreter written against the documented meaning of the options decides which records must be kept, discarded or edited and how, which file each record must land in, and that mates stay at the same rank. The interpreter decides the combination logic; the simulator is what reaches the schedule-dependent half (complement file written concurrently, mate synchrony through PairTo, routing by Distribute, shared worker closures, map-ordered option tables).",
    note="Trusted: the 300-line reference interpreter (Go regexp for patterns). Stated subset only: no --aho-corasick, --pattern / approx-pattern, taxonomy options, scripts, -p beyond comparisons of annotations.count; obiannotate is not combined with selection options (whether unselected records are dropped is not documented).",
)

# what the harness families gained after their first version (waves of seeded changes, DESIGN.md 13)
ADDED = {
    "C01": " Later additions: OBI-style (key=value;) and UTF-8 title lines; several input files, in order and with --no-order; several-member gzip; standard input as a redirected file and as a pipe, with a delimiter of a drawn record placed on the 4 KiB refill boundary of the C reader; buffers recycled by earlier users of the slice pool before the reader starts.",
    "C03": " Later additions: PairedWith behind a multi-worker stage, CopyTee, LimitMemory (also under memory pressure), workers that fail on some records, one-reader multi-file order, peek + PushBack + Split consumers.",
    "C04": " Later additions: the ...ToFile entry points on real files (new, left by a longer or shorter run, append mode); batches of 70-200 KB and of 8-11 MB; plans of 18-57 batches (thorough: more than 65536); CSV optional columns checked cell by cell; JSON objects and FASTA/FASTQ records read back by the harness' own parsers and compared with the records (qualities up to Q93, backslashes, percent signs, UTF-8).",
    "C05": " Later additions: a library stage (one case in three) in which predicates built from the commands' constructors are applied by FilterOn with 2-6 workers to batches of 1-5 records and compared with a sequential instance; --force-one-cpu and stderr-as-terminal configurations; stale output files; obipcr templates with tandem sites and circular templates opened inside a priming site; obigrep --approx-pattern.",
    "C06": " Later additions: more than 65536 distinct sequences in one chunk (one run per quick tier); numeric category values; CRC-32 twins; OBI-style input headers; crash and restart (one case in four is preceded by the same command killed at a drawn step in the same directory with the same process id).",
    "C07": " Later additions: slice-valued and reader-style map annotations, feature tables, wrapped circular windows, empty sequences, second Recycle, the pattern complement table of obiapat, and the Lua binding through obiscript (one run in 40).",
    "C13": " Later additions: the hard-wired batch size of the annotation stage as a knob (1-7), counts compared with the record's own status, --force-one-cpu, data sets that are not dereplicated (scalar sample attribute, words or numbers above 2^24).",
    "C16": " Later additions: obigrep --approx-pattern (IUPAC codes, errors, indels, '#' positions, both strands) against a reference matcher, boolean expressions from a small grammar, taxonomic restrictions on a generated dump with merged ids, --id-list file variations; obidistribute --batches / --hash / -Z / -d / -A on existing files; paired runs with several write workers and stderr as a terminal.",
    "C17": " Later additions: several-member gzip and gzip headers with name / comment fields; the damaged file among 2-3 intact ones; standard input as a pipe and with an explicit format; read(2) errors on standard input (directory, reset socket); CSV sequence files (also larger than the 1 MiB seen by the format guesser); obigrep / obiannotate besides obiconvert.",
    "C18": " Later additions: real errno values from the failing endpoint (EPIPE, ENOSPC, EIO, EDQUOT, ECONNRESET, io.ErrClosedPipe, io.ErrShortWrite); a file size limit (RLIMIT_FSIZE) of k bytes on the real command with a control run, on -o, stdout, --save-discarded and every part file of obidistribute; seven commands on /dev/full.",
}
for _k, _v in ADDED.items():
    CLAIMED[_k]["text"] += _v
CLAIMED["C01"]["note"] = CLAIMED["C01"]["note"].replace("A pipe is not simulated (a C read(2) on a pipe is not durably blocked); the stdin transport, i.e. the C kseq reader, is reached by redirecting a regular file on fd 0 of the simulated obiconvert main", "The stdin transport, i.e. the C kseq reader, is reached by redirecting a regular file, or a pipe filled by the parent process, on fd 0 of the simulated obiconvert main")

PENDING = {
}

NOT_APPLICABLE = {
    "C02": "pure function of the record (write/read round trip is decided by the header scanner and formatter for a given record; no schedule, fault or history in its statement) - see DESIGN.md 5",
    "C08": "pure function of the read pair (dynamic-programming identity); arena reuse only shows as output instability, which C05 covers as a configuration - DESIGN.md 5",
    "C09": "pure function of the sequence pair and the error bound - DESIGN.md 5",
    "C10": "pure function of pattern, sequence and budget - DESIGN.md 5",
    "C11": "pure function of template, primers and options; batch-composition dependence is a C05 configuration - DESIGN.md 5",
    "C12": "pure function of read and sample sheet - DESIGN.md 5",
    "C14": "pure function of tree and taxa - DESIGN.md 5",
    "C15": "pure function of query, reference set and taxonomy - DESIGN.md 5",
    "C19": "pure function of the sequence set and k - DESIGN.md 5",
    "C20": "pure arithmetic on fixed-width integers - DESIGN.md 5",
}


def main():
    props = [json.loads(l) for l in open(os.path.join(ROOT, "properties.jsonl"))]
    ids = [p["id"] for p in props]
    checks = []
    na = []
    for pid in ids:
        if pid in CLAIMED:
            c = CLAIMED[pid]
            checks.append({
                "property_id": pid,
                "quick_cmd": f"bin/vcheck run {pid} --tier quick",
                "thorough_cmd": f"bin/vcheck run {pid} --tier thorough",
                "evidence_file": f"evidence/{pid}.json",
                "replay_cmd_template": "bin/vcheck replay {path}",
                "engine": "vsim",
                "level_claimed": {"category": c["level"], "text": c["text"], "design_ref": c["design"]},
                "level_note": c["note"],
                "technique": c["technique"],
            })
        elif pid in NOT_APPLICABLE:
            na.append({"property_id": pid, "reason": NOT_APPLICABLE[pid]})
        elif pid in PENDING:
            na.append({"property_id": pid, "reason": "not claimed yet: " + PENDING[pid]})
        else:
            na.append({"property_id": pid, "reason": "not claimed yet: the simulated check for this property is designed (DESIGN.md 4) but not built"})
    man = {
        "version": 1,
        "setup_cmd": "sh tools/setup.sh",
        "hooks": {
            "guard": "verif",
            "enable": "no hook lives in /repo: every check copies /repo's working tree to a scratch directory, instruments the copy (bin/instrument: sync primitives, channel operations, go statements, sleeps, exits, map ranges -> pkg/zverif/simrt) and builds it with go1.26.8 -tags verif",
            "baseline_off_cmd": "cd /repo && go test -json -vet=off -count=1 -timeout 25m ./...",
            "source_commits": [],
            "add_only": True,
        },
        "engines": [{
            "name": "vsim",
            "path": "cmd/vcheck, simrt/, instrument/, harness/",
            "serves_properties": [c["property_id"] for c in checks],
            "kind_free_text": "deterministic simulation with fault injection: source-to-source instrumentation of a scratch copy, a seeded cooperative scheduler inside a testing/synctest bubble (one task runs at a time; every pick, map order, pool choice, read size and fault position comes from a recorded tape), simulated reader/writer endpoints with fault plans, executable reference models as oracles, tape minimisation and exact replay",
        }],
        "checks": checks,
        "not_applicable": na,
        "notes": "Exit 0 = held on everything explored, 1 = VIOLATION line with a replay file, 2 = build / watchdog / determinism trouble. known_findings.jsonl lists genuine defects recorded rather than repaired (KNOWN-FINDING lines) and the repaired ones (fixed: lines, which suppress nothing).",
    }
    with open(os.path.join(ROOT, "MANIFEST.json"), "w") as f:
        json.dump(man, f, indent=1)
        f.write("\n")
    print("claimed:", [c["property_id"] for c in checks])


if __name__ == "__main__":
    main()
