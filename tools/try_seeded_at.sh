#!/bin/sh
# usage: tools/try_seeded_at.sh <repo-copy> <patch.diff> <property> [<property> ...]
# Same as try_seeded.sh, on a clean copy of /repo (git clone /repo <repo-copy>) so that several
# seeded changes can be tried while /repo itself is busy.  Evidence files are left untouched.
set -u
repo="$1"; patch="$2"; shift 2
cd /verif
git -C "$repo" apply --check "$patch" || { echo "patch does not apply"; exit 2; }
git -C "$repo" apply "$patch"
trap 'git -C "$repo" checkout -- . ; git -C "$repo" clean -fdq' EXIT
ev=$(mktemp -d /tmp/evsave.XXXXXX); cp -a evidence/. $ev/
rcs=""
for p in "$@"; do
  VERIF_REPO="$repo" bin/vcheck run "$p" --tier quick ${VCHECK_ARGS:---no-minimise} > $ev/try_$p.log 2>&1
  rc=$?
  rcs="$rcs $p=$rc"
  grep -E "^VIOLATION|^  class=|^vcheck|^KNOWN" $ev/try_$p.log | cut -c1-220 | head -12
done
cp -a $ev/*.json evidence/ 2>/dev/null; rm -rf $ev
echo "RESULT:$rcs"
