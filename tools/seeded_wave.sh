#!/bin/sh
# usage: tools/seeded_wave.sh <n>
# Prepares wave <n> of seeded changes: one scratch worktree of /repo per claimed property under
# /tmp/wt<n>/<ID>, the text of the property (/tmp/wt<n>/<ID>.property.txt) and the brief of the
# sub-agent (/tmp/wt<n>/<ID>.prompt.txt).  The brief contains nothing from /verif but the one-line
# descriptions of the changes of earlier waves (to be avoided).  Afterwards:
#   confirm each demo (run.sh without / with), tools/try_seeded.sh <patch> <IDs>, store under
#   seeded/W<n>-<ID>-<k>/, then  git -C /repo worktree remove --force /tmp/wt<n>/<ID>
set -eu
n="$1"
W=/tmp/wt$n
mkdir -p $W
for p in C01 C03 C04 C05 C06 C07 C13 C16 C17 C18; do
  [ -d $W/$p ] || git -C /repo worktree add -q $W/$p HEAD
done
python3 - "$n" <<'EOF'
import json,glob,re,sys
n=sys.argv[1]
W='/tmp/wt'+n
used={}
for f in sorted(glob.glob('/verif/seeded/*/meta.json')):
    m=json.load(open(f))
    pid=re.sub(r'^W\d-','',m['id'])[:3]
    if 'change' in m: used.setdefault(pid,[]).append(m['change'])
tmpl=open('/verif/tools/seeded_wave_prompt.txt').read()
for l in open('/verif/properties.jsonl'):
    p=json.loads(l)
    pid=p['id']
    if pid in used:
        open('%s/%s.property.txt'%(W,pid),'w').write("Property %s — %s\n\nStatement: %s\n\nQuantified over: %s — %s\n\nCode it is anchored in: %s\n" % (pid,p['title'],p['statement'],', '.join(p['quantifier']['over']),p['quantifier']['text'],', '.join(p['anchors']['files'])))
        open('%s/%s.prompt.txt'%(W,pid),'w').write(tmpl.replace('@W@',W).replace('@ID@',pid).replace('@N@',n).replace('@AVOID@','; '.join(used[pid])))
print('prepared', sorted(used))
EOF
