#!/bin/sh
# usage: tools/try_seeded.sh <patch.diff> <property> [<property> ...]
# Applies a seeded change to /repo, runs the quick checks of the given properties, and undoes
# the change whatever happens.  Evidence files of the real tree are preserved.
set -u
patch="$1"; shift
cd /verif
git -C /repo apply --check "$patch" || { echo "patch does not apply"; exit 2; }
git -C /repo apply "$patch"
trap 'git -C /repo checkout -- . ; git -C /repo clean -fdq' EXIT
mkdir -p /tmp/evsave && cp -a evidence/. /tmp/evsave/
rcs=""
for p in "$@"; do
  bin/vcheck run "$p" --tier quick ${VCHECK_ARGS:-} > /tmp/try_$p.log 2>&1
  rc=$?
  rcs="$rcs $p=$rc"
  grep -E "^VIOLATION|^  class=|^vcheck|^KNOWN" /tmp/try_$p.log | cut -c1-220 | head -12
done
cp -a /tmp/evsave/. evidence/
echo "RESULT:$rcs"
