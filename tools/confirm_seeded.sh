#!/bin/sh
# usage: confirm_seeded.sh <worktree> <k> <demo test file(s) dest pkg dir> <go test -run regex> [pkg...]
# Confirms in the scratch worktree: builds with the change, demo fails with / passes without.
wt=$1; k=$2; dest=$3; rx=$4; shift 4
export GOFLAGS=-mod=mod GOWORK=off GOPROXY=off
cd $wt && git checkout -q -- . && git clean -fdq -e _seeded
cp _seeded/$k/demo/*_test.go $dest/ 2>/dev/null
echo "--- without the change"; go test -vet=off -count=1 -run "$rx" ./$dest/ 2>&1 | grep -E "^(ok|FAIL|---|panic)" | head -5
git apply _seeded/$k/patch.diff || { echo "PATCH DOES NOT APPLY"; exit 1; }
echo "--- build"; go build ./pkg/... ./cmd/obitools/... 2>&1 | grep -E "^[a-z./_A-Z0-9]+\.go:[0-9]+" | head -5
echo "--- with the change"; go test -vet=off -count=1 -run "$rx" ./$dest/ 2>&1 | grep -E "^(ok|FAIL|---|panic)" | head -5
rm -f $dest/*seed*_test.go $dest/c0*_test.go $dest/c1*_test.go
echo "--- baseline with the change"; go test -vet=off -count=1 ./pkg/... 2>&1 | grep -E "^(--- FAIL|FAIL|ok)" | tr '\n' ' '; echo
git checkout -q -- . && git clean -fdq -e _seeded
