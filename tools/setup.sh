#!/bin/sh
# Builds the driver and the instrumenter, offline, from files on disk only.
set -e
cd "$(dirname "$0")/.."
export GOFLAGS=-mod=mod GOPROXY=off GOSUMDB=off GOTOOLCHAIN=local GOWORK=off
GO=/opt/veriftools/go1.26.8/bin/go
[ -x "$GO" ] || GO=go1.26.8
mkdir -p bin evidence
"$GO" build -o bin/vcheck ./cmd/vcheck
"$GO" build -o bin/instrument ./instrument
echo "setup ok"
