#!/bin/sh
# Re-runs every seeded change of /verif/seeded against the quick tier of the checks named in
# its meta.json ("caught_by"), and writes seeded/RESULTS.txt.  Takes a while (about 1-2 min per change).
# An optional argument restricts the run to the changes whose id matches the shell pattern
# (e.g. 'W8-*'); their lines of RESULTS.txt are replaced, the others kept.
cd /verif
pat="${1:-*}"
if [ "$pat" = "*" ]; then : > seeded/RESULTS.txt; fi
for d in seeded/*/; do
  id=$(basename $d)
  [ -f $d/patch.diff ] || continue
  case "$id" in $pat) ;; *) continue ;; esac
  grep -v "^$id: " seeded/RESULTS.txt > seeded/RESULTS.tmp 2>/dev/null; mv seeded/RESULTS.tmp seeded/RESULTS.txt
  pf=$d/patch.diff
  # a change whose site was touched by a later fix is kept in its original form and re-made on the current tree
  [ -f $d/patch.current.diff ] && pf=$d/patch.current.diff
  props=$(python3 - "$d/meta.json" <<'PY'
import json,sys,re
m=json.load(open(sys.argv[1]))
ps=[]
for c in m.get("caught_by",[]):
    mm=re.match(r"(C\d\d)",c)
    if mm and mm.group(1) not in ps: ps.append(mm.group(1))
print(" ".join(ps))
PY
)
  if ! git -C /repo apply --check /verif/$pf 2>/dev/null; then echo "$id: patch no longer applies to /repo (the site was changed by a later fix)" >> seeded/RESULTS.txt; continue; fi
  out=$(tools/try_seeded.sh /verif/$pf $props 2>&1 | grep "^RESULT:")
  echo "$id: $out" >> seeded/RESULTS.txt
done
cat seeded/RESULTS.txt
