// instrument rewrites a scratch copy of the repository in place so that every
// synchronisation point goes through the simulator runtime (pkg/zverif/simrt).
//
// usage: instrument <scratch-root> <verif-root>
//
// Exit status 2 = the tree does not load / type-check (a build problem, never a violation).
package main

import (
	"bufio"
	"bytes"
	"encoding/json"
	"fmt"
	"go/ast"
	"go/format"
	"go/parser"
	"go/printer"
	"go/token"
	"go/types"
	"os"
	"path/filepath"
	"sort"
	"strconv"
	"strings"

	"golang.org/x/tools/go/ast/astutil"
	"golang.org/x/tools/go/packages"
)

const modPath = "git.metabarcoding.org/obitools/obitools4/obitools4"
const simrtPath = modPath + "/pkg/zverif/simrt"

var stats = map[string]int{}
var unsupported []string

type ctx struct {
	fset  *token.FileSet
	info  *types.Info // nil: untyped fallback (cgo files)
	file  *ast.File
	used  bool
	tmp   int
	dense bool
	hot   bool // dense with the cheap sampled yield, no read-modify-write splitting
	path  string
}

func sel(name string) ast.Expr {
	return &ast.SelectorExpr{X: ast.NewIdent("simrt"), Sel: ast.NewIdent(name)}
}
func call(name string, args ...ast.Expr) *ast.CallExpr {
	return &ast.CallExpr{Fun: sel(name), Args: args}
}

func (c *ctx) isPkg(id *ast.Ident, path string) bool {
	if c.info != nil {
		if pn, ok := c.info.Uses[id].(*types.PkgName); ok {
			return pn.Imported().Path() == path
		}
		return false
	}
	for _, im := range c.file.Imports {
		p, _ := strconv.Unquote(im.Path.Value)
		if p != path {
			continue
		}
		name := filepath.Base(path)
		if im.Name != nil {
			name = im.Name.Name
		}
		return id.Name == name && id.Obj == nil
	}
	return false
}

func (c *ctx) typeOf(e ast.Expr) types.Type {
	if c.info == nil {
		return nil
	}
	return c.info.TypeOf(e)
}

func (c *ctx) isConst(e ast.Expr) bool {
	if c.info == nil {
		_, ok := e.(*ast.BasicLit)
		return ok
	}
	tv, ok := c.info.Types[e]
	return ok && (tv.Value != nil || tv.IsNil())
}

var syncTypes = map[string]bool{"Mutex": true, "RWMutex": true, "WaitGroup": true, "Once": true, "Pool": true}

// orderableKey: 1 = cmp.Ordered basic key, 2 = comparable aggregate of basics (struct/array),
// 0 = leave native.
func orderableKey(t types.Type) int {
	if _, ok := t.(*types.TypeParam); ok {
		// generic containers (obiutils.Set, min/max helpers): ordered by the printed value
		return 2
	}
	switch u := t.Underlying().(type) {
	case *types.Basic:
		if u.Info()&(types.IsString|types.IsInteger|types.IsFloat) != 0 {
			return 1
		}
		return 0
	case *types.Struct:
		for i := 0; i < u.NumFields(); i++ {
			if orderableKey(u.Field(i).Type()) == 0 {
				if b, ok := u.Field(i).Type().Underlying().(*types.Basic); ok && b.Info()&types.IsBoolean != 0 {
					continue
				}
				return 0
			}
		}
		return 2
	case *types.Array:
		if orderableKey(u.Elem()) != 0 {
			return 2
		}
	}
	return 0
}

func (c *ctx) rewrite() {
	inComm := map[ast.Node]bool{}
	labeled := map[ast.Node]bool{}
	commaOk := map[ast.Node]bool{}
	ast.Inspect(c.file, func(n ast.Node) bool {
		switch p := n.(type) {
		case *ast.CommClause:
			if p.Comm != nil {
				ast.Inspect(p.Comm, func(m ast.Node) bool {
					if m != nil {
						inComm[m] = true
					}
					return true
				})
			}
		case *ast.LabeledStmt:
			labeled[p.Stmt] = true
		}
		var rhs ast.Expr
		switch p := n.(type) {
		case *ast.AssignStmt:
			if len(p.Lhs) == 2 && len(p.Rhs) == 1 {
				rhs = p.Rhs[0]
			}
		case *ast.ValueSpec:
			if len(p.Names) == 2 && len(p.Values) == 1 {
				rhs = p.Values[0]
			}
		}
		for rhs != nil {
			if pe, ok := rhs.(*ast.ParenExpr); ok {
				rhs = pe.X
				continue
			}
			commaOk[rhs] = true
			break
		}
		return true
	})

	if c.dense || c.hot {
		// go/printer misplaces free-floating comments around inserted statements (and can then
		// swallow code into a line comment): drop the comments that follow the package clause.
		kept := c.file.Comments[:0]
		for _, cg := range c.file.Comments {
			if cg.End() < c.file.Package {
				kept = append(kept, cg)
			}
		}
		c.file.Comments = kept
		c.denseRewrite()
	}

	astutil.Apply(c.file, nil, func(cur *astutil.Cursor) bool {
		switch n := cur.Node().(type) {
		case *ast.SelectorExpr:
			if id, ok := n.X.(*ast.Ident); ok {
				switch {
				case syncTypes[n.Sel.Name] && c.isPkg(id, "sync"):
					cur.Replace(sel(n.Sel.Name))
					c.used = true
					stats["T1_sync_type"]++
				case n.Sel.Name == "Sleep" && c.isPkg(id, "time"):
					cur.Replace(sel("Sleep"))
					c.used = true
					stats["T8_sleep"]++
				case n.Sel.Name == "Exit" && c.isPkg(id, "os"):
					cur.Replace(sel("ProcessExit"))
					c.used = true
					stats["T9_exit"]++
				case n.Sel.Name == "Gosched" && c.isPkg(id, "runtime"):
					cur.Replace(sel("Yield"))
					c.used = true
					stats["T8_gosched"]++
				case n.Sel.Name == "Getpid" && c.isPkg(id, "os"):
					// the process id is an input of the run like any other (names of
					// temporary files built from it must not collide between two runs)
					cur.Replace(sel("Getpid"))
					c.used = true
					stats["T14_getpid"]++
				}
			}
		case *ast.SendStmt:
			if inComm[n] {
				stats["uninstrumented_select_comm"]++
				return true
			}
			cur.Replace(&ast.ExprStmt{X: call("Send", n.Chan, n.Value)})
			c.used = true
			stats["T2_send"]++
		case *ast.UnaryExpr:
			if n.Op != token.ARROW {
				return true
			}
			if inComm[n] {
				stats["uninstrumented_select_comm"]++
				return true
			}
			name := "Recv"
			if commaOk[n] {
				name = "Recv2"
			}
			cur.Replace(call(name, n.X))
			c.used = true
			stats["T3_recv"]++
		case *ast.CallExpr:
			if id, ok := n.Fun.(*ast.Ident); ok && id.Name == "close" && len(n.Args) == 1 {
				if c.info != nil {
					if _, ok := c.info.Uses[id].(*types.Builtin); !ok {
						return true
					}
				}
				cur.Replace(call("Close", n.Args[0]))
				c.used = true
				stats["T5_close"]++
			}
		case *ast.RangeStmt:
			t := c.typeOf(n.X)
			if t == nil {
				return true
			}
			switch u := t.Underlying().(type) {
			case *types.Chan:
				n.X = call("RangeChan", n.X)
				c.used = true
				stats["T4_rangechan"]++
			case *types.Map:
				if labeled[n] {
					stats["native_map_ranges"]++
					unsupported = append(unsupported, c.pos(n)+" labeled map range")
					return true
				}
				switch orderableKey(u.Key()) {
				case 1:
					c.rewriteMapRange(cur, n, "MapKeys")
				case 2:
					c.rewriteMapRange(cur, n, "MapKeysAny")
				default:
					stats["native_map_ranges"]++
					unsupported = append(unsupported, c.pos(n)+" map range over key type "+u.Key().String())
				}
			}
		case *ast.GoStmt:
			c.rewriteGo(cur, n)
		case *ast.SelectStmt:
			stats["uninstrumented_select"]++
			unsupported = append(unsupported, c.pos(n)+" select statement")
		}
		return true
	})
}

func (c *ctx) pos(n ast.Node) string {
	p := c.fset.Position(n.Pos())
	return fmt.Sprintf("%s:%d", filepath.Base(p.Filename), p.Line)
}

func blank(e ast.Expr) bool {
	if e == nil {
		return true
	}
	id, ok := e.(*ast.Ident)
	return ok && id.Name == "_"
}

func (c *ctx) rewriteMapRange(cur *astutil.Cursor, n *ast.RangeStmt, fn string) {
	c.tmp++
	mname := fmt.Sprintf("__vm%d", c.tmp)
	kname := fmt.Sprintf("__vk%d", c.tmp)
	okname := fmt.Sprintf("__vok%d", c.tmp)
	m := ast.NewIdent(mname)
	var keyExpr ast.Expr = ast.NewIdent(kname)
	tok := n.Tok
	if tok == token.ILLEGAL {
		tok = token.DEFINE
	}
	inner := []ast.Stmt{}
	if !blank(n.Key) {
		inner = append(inner, &ast.AssignStmt{Lhs: []ast.Expr{n.Key}, Tok: tok, Rhs: []ast.Expr{ast.NewIdent(kname)}})
		if tok == token.DEFINE {
			inner = append(inner, &ast.AssignStmt{Lhs: []ast.Expr{ast.NewIdent("_")}, Tok: token.ASSIGN, Rhs: []ast.Expr{n.Key}})
		}
	}
	idx := &ast.IndexExpr{X: m, Index: keyExpr}
	if !blank(n.Value) {
		if tok == token.DEFINE {
			inner = append(inner, &ast.AssignStmt{Lhs: []ast.Expr{n.Value, ast.NewIdent(okname)}, Tok: token.DEFINE, Rhs: []ast.Expr{idx}})
			inner = append(inner, &ast.AssignStmt{Lhs: []ast.Expr{ast.NewIdent("_")}, Tok: token.ASSIGN, Rhs: []ast.Expr{n.Value}})
		} else {
			inner = append(inner, &ast.DeclStmt{Decl: &ast.GenDecl{Tok: token.VAR, Specs: []ast.Spec{&ast.ValueSpec{Names: []*ast.Ident{ast.NewIdent(okname)}, Type: ast.NewIdent("bool")}}}})
			inner = append(inner, &ast.AssignStmt{Lhs: []ast.Expr{n.Value, ast.NewIdent(okname)}, Tok: token.ASSIGN, Rhs: []ast.Expr{idx}})
		}
	} else {
		inner = append(inner, &ast.AssignStmt{Lhs: []ast.Expr{ast.NewIdent("_"), ast.NewIdent(okname)}, Tok: token.DEFINE, Rhs: []ast.Expr{idx}})
	}
	inner = append(inner, &ast.IfStmt{Cond: &ast.UnaryExpr{Op: token.NOT, X: ast.NewIdent(okname)}, Body: &ast.BlockStmt{List: []ast.Stmt{&ast.BranchStmt{Tok: token.CONTINUE}}}})
	inner = append(inner, n.Body)
	loop := &ast.RangeStmt{Key: ast.NewIdent("_"), Value: ast.NewIdent(kname), Tok: token.DEFINE, X: call(fn, m), Body: &ast.BlockStmt{List: inner}}
	pre := []ast.Stmt{&ast.AssignStmt{Lhs: []ast.Expr{m}, Tok: token.DEFINE, Rhs: []ast.Expr{n.X}}}
	cur.Replace(&ast.BlockStmt{List: append(pre, loop)})
	c.used = true
	stats["T11_maprange_"+fn]++
}

func (c *ctx) rewriteGo(cur *astutil.Cursor, n *ast.GoStmt) {
	tokType := &ast.StarExpr{X: sel("Task")}
	enter := &ast.ExprStmt{X: call("Enter", ast.NewIdent("__vtok"))}
	exit := &ast.DeferStmt{Call: call("Exit", ast.NewIdent("__vtok"))}
	if fl, ok := n.Call.Fun.(*ast.FuncLit); ok {
		fl.Type.Params.List = append([]*ast.Field{{Names: []*ast.Ident{ast.NewIdent("__vtok")}, Type: tokType}}, fl.Type.Params.List...)
		fl.Body.List = append([]ast.Stmt{enter, exit}, fl.Body.List...)
		n.Call.Args = append([]ast.Expr{call("PreGo")}, n.Call.Args...)
		stats["T6_go_literal"]++
		c.used = true
		return
	}
	if n.Call.Ellipsis != token.NoPos {
		stats["uninstrumented_go"]++
		unsupported = append(unsupported, c.pos(n)+" go statement with ellipsis")
		return
	}
	c.tmp++
	var lhs, rhs []ast.Expr
	fname := ast.NewIdent(fmt.Sprintf("__vf%d", c.tmp))
	lhs = append(lhs, fname)
	rhs = append(rhs, n.Call.Fun)
	args := make([]ast.Expr, len(n.Call.Args))
	for i, a := range n.Call.Args {
		if c.isConst(a) {
			args[i] = a
			continue
		}
		if c.info != nil {
			if tup, ok := c.info.TypeOf(a).(*types.Tuple); ok && tup.Len() != 1 {
				stats["uninstrumented_go"]++
				unsupported = append(unsupported, c.pos(n)+" go statement with tuple argument")
				return
			}
		}
		an := ast.NewIdent(fmt.Sprintf("__va%d_%d", c.tmp, i))
		lhs = append(lhs, an)
		rhs = append(rhs, a)
		args[i] = an
	}
	bind := &ast.AssignStmt{Lhs: lhs, Tok: token.DEFINE, Rhs: rhs}
	inner := &ast.CallExpr{Fun: fname, Args: args}
	lit := &ast.FuncLit{
		Type: &ast.FuncType{Params: &ast.FieldList{List: []*ast.Field{{Names: []*ast.Ident{ast.NewIdent("__vtok")}, Type: tokType}}}},
		Body: &ast.BlockStmt{List: []ast.Stmt{enter, exit, &ast.ExprStmt{X: inner}}},
	}
	g := &ast.GoStmt{Call: &ast.CallExpr{Fun: lit, Args: []ast.Expr{call("PreGo")}}}
	cur.Replace(&ast.BlockStmt{List: []ast.Stmt{bind, g}})
	stats["T7_go_call"]++
	c.used = true
}

// ---------------------------------------------------------------- T12 dense yields

func hasCallOrRecv(e ast.Expr) bool {
	found := false
	ast.Inspect(e, func(n ast.Node) bool {
		switch x := n.(type) {
		case *ast.CallExpr:
			found = true
		case *ast.UnaryExpr:
			if x.Op == token.ARROW {
				found = true
			}
		case *ast.FuncLit:
			found = true
		}
		return !found
	})
	return found
}

func (c *ctx) nonLocal(e ast.Expr, fn ast.Node) bool {
	switch x := e.(type) {
	case *ast.SelectorExpr, *ast.IndexExpr, *ast.StarExpr:
		return true
	case *ast.ParenExpr:
		return c.nonLocal(x.X, fn)
	case *ast.Ident:
		if c.info == nil || fn == nil {
			return false
		}
		obj := c.info.Uses[x]
		if obj == nil {
			return false
		}
		if _, ok := obj.(*types.Var); !ok {
			return false
		}
		return obj.Pos() < fn.Pos() || obj.Pos() > fn.End()
	}
	return false
}

var opOf = map[token.Token]token.Token{
	token.ADD_ASSIGN: token.ADD, token.SUB_ASSIGN: token.SUB, token.MUL_ASSIGN: token.MUL,
	token.QUO_ASSIGN: token.QUO, token.REM_ASSIGN: token.REM, token.AND_ASSIGN: token.AND,
	token.OR_ASSIGN: token.OR, token.XOR_ASSIGN: token.XOR, token.SHL_ASSIGN: token.SHL,
	token.SHR_ASSIGN: token.SHR, token.AND_NOT_ASSIGN: token.AND_NOT,
}

func (c *ctx) splitRMW(st ast.Stmt, fn ast.Node) ast.Stmt {
	var lhs ast.Expr
	var newval func(t ast.Expr) ast.Expr
	switch s := st.(type) {
	case *ast.IncDecStmt:
		lhs = s.X
		op := token.ADD
		if s.Tok == token.DEC {
			op = token.SUB
		}
		newval = func(t ast.Expr) ast.Expr {
			return &ast.BinaryExpr{X: t, Op: op, Y: &ast.BasicLit{Kind: token.INT, Value: "1"}}
		}
	case *ast.AssignStmt:
		op, ok := opOf[s.Tok]
		if !ok || len(s.Lhs) != 1 || len(s.Rhs) != 1 {
			return nil
		}
		lhs = s.Lhs[0]
		rhs := s.Rhs[0]
		if hasCallOrRecv(rhs) {
			return nil
		}
		newval = func(t ast.Expr) ast.Expr {
			return &ast.BinaryExpr{X: t, Op: op, Y: &ast.ParenExpr{X: rhs}}
		}
	default:
		return nil
	}
	if hasCallOrRecv(lhs) || !c.nonLocal(lhs, fn) {
		return nil
	}
	if c.info != nil {
		// strings: += on a string is fine; skip untyped oddities
		if t := c.info.TypeOf(lhs); t == nil {
			return nil
		}
	}
	c.tmp++
	t := ast.NewIdent(fmt.Sprintf("__vt%d", c.tmp))
	stats["T12_rmw_split"]++
	return &ast.BlockStmt{List: []ast.Stmt{
		&ast.AssignStmt{Lhs: []ast.Expr{t}, Tok: token.DEFINE, Rhs: []ast.Expr{lhs}},
		&ast.ExprStmt{X: call("YieldMaybe")},
		&ast.AssignStmt{Lhs: []ast.Expr{lhs}, Tok: token.ASSIGN, Rhs: []ast.Expr{newval(t)}},
	}}
}

func (c *ctx) denseList(list []ast.Stmt, fn ast.Node) []ast.Stmt {
	out := make([]ast.Stmt, 0, 2*len(list))
	for _, st := range list {
		if c.hot {
			if _, isDecl := st.(*ast.DeclStmt); !isDecl {
				out = append(out, &ast.ExprStmt{X: call("YieldRare")})
				stats["T12_yield_rare"]++
			}
			out = append(out, st)
			continue
		}
		if _, isDecl := st.(*ast.DeclStmt); !isDecl {
			out = append(out, &ast.ExprStmt{X: call("YieldMaybe")})
			stats["T12_yield"]++
		}
		if sp := c.splitRMW(st, fn); sp != nil {
			out = append(out, sp)
		} else {
			out = append(out, st)
		}
	}
	c.used = true
	return out
}

func (c *ctx) denseRewrite() {
	clauseBlocks := map[*ast.BlockStmt]bool{}
	ast.Inspect(c.file, func(n ast.Node) bool {
		switch x := n.(type) {
		case *ast.SwitchStmt:
			clauseBlocks[x.Body] = true
		case *ast.TypeSwitchStmt:
			clauseBlocks[x.Body] = true
		case *ast.SelectStmt:
			clauseBlocks[x.Body] = true
		}
		return true
	})
	var visit func(n ast.Node, fn ast.Node)
	visit = func(n ast.Node, fn ast.Node) {
		ast.Inspect(n, func(m ast.Node) bool {
			switch x := m.(type) {
			case *ast.FuncLit:
				if x != n {
					visit(x.Body, x)
					return false
				}
			case *ast.BlockStmt:
				if fn != nil && !clauseBlocks[x] {
					x.List = c.denseList(x.List, fn)
				}
			case *ast.CaseClause:
				if fn != nil {
					x.Body = c.denseList(x.Body, fn)
				}
			case *ast.CommClause:
				if fn != nil {
					x.Body = c.denseList(x.Body, fn)
				}
			}
			return true
		})
	}
	for _, d := range c.file.Decls {
		if fd, ok := d.(*ast.FuncDecl); ok && fd.Body != nil {
			if fd.Name.Name == "init" {
				continue
			}
			visit(fd.Body, fd)
		}
	}
}

// ---------------------------------------------------------------- T10 knobs

func (c *ctx) knobs(pkgName string) {
	// hard-wired batch sizes of internal stages ("batchsize := 1000"): knob "batch"
	ast.Inspect(c.file, func(n ast.Node) bool {
		as, ok := n.(*ast.AssignStmt)
		if !ok || as.Tok != token.DEFINE || len(as.Lhs) != 1 || len(as.Rhs) != 1 {
			return true
		}
		id, ok := as.Lhs[0].(*ast.Ident)
		if !ok || strings.ToLower(id.Name) != "batchsize" {
			return true
		}
		lit, ok := as.Rhs[0].(*ast.BasicLit)
		if !ok || lit.Kind != token.INT {
			return true
		}
		as.Rhs[0] = call("Knob", &ast.BasicLit{Kind: token.STRING, Value: `"batch"`}, lit)
		c.used = true
		stats["T10_knob_batch"]++
		return true
	})
	if pkgName != "obiformats" || c.info == nil {
		return
	}
	for _, d := range c.file.Decls {
		fd, ok := d.(*ast.FuncDecl)
		if !ok || fd.Body == nil || fd.Name.Name == "OBIMimeTypeGuesser" {
			continue
		}
		ast.Inspect(fd.Body, func(n ast.Node) bool {
			ce, ok := n.(*ast.CallExpr)
			if !ok || len(ce.Args) != 2 {
				return true
			}
			id, ok := ce.Fun.(*ast.Ident)
			if !ok || id.Name != "make" {
				return true
			}
			tv, ok := c.info.Types[ce.Args[1]]
			if !ok || tv.Value == nil {
				return true
			}
			v, err := strconv.ParseInt(tv.Value.ExactString(), 10, 64)
			if err != nil || v < 65536 {
				return true
			}
			ce.Args[1] = call("Knob", &ast.BasicLit{Kind: token.STRING, Value: `"chunk"`}, ce.Args[1])
			c.used = true
			stats["T10_knob"]++
			return true
		})
	}
}

func usesPkgIdent(f *ast.File, name string) bool {
	found := false
	ast.Inspect(f, func(n ast.Node) bool {
		if se, ok := n.(*ast.SelectorExpr); ok {
			if id, ok := se.X.(*ast.Ident); ok && id.Name == name {
				found = true
			}
		}
		return !found
	})
	return found
}

func (c *ctx) finish(path string) error {
	if !c.used {
		return nil
	}
	astutil.AddNamedImport(c.fset, c.file, "simrt", simrtPath)
	for _, p := range []string{"sync", "time", "os", "runtime"} {
		if !usesPkgIdent(c.file, p) {
			astutil.DeleteImport(c.fset, c.file, p)
		}
	}
	var buf bytes.Buffer
	if err := format.Node(&buf, c.fset, c.file); err != nil {
		var raw bytes.Buffer
		printer.Fprint(&raw, c.fset, c.file)
		os.WriteFile(path+".broken", raw.Bytes(), 0644)
		return fmt.Errorf("%s: %w", path, err)
	}
	return os.WriteFile(path, buf.Bytes(), 0644)
}

func readList(path string) []string {
	f, err := os.Open(path)
	if err != nil {
		return nil
	}
	defer f.Close()
	var out []string
	sc := bufio.NewScanner(f)
	for sc.Scan() {
		l := strings.TrimSpace(sc.Text())
		if l == "" || strings.HasPrefix(l, "#") {
			continue
		}
		out = append(out, l)
	}
	return out
}

func matchDense(rel string, pats []string) bool {
	for _, p := range pats {
		if ok, _ := filepath.Match(p, rel); ok {
			return true
		}
	}
	return false
}

// T13: copy the real main of each command into an importable package.
func copyMains(root string) error {
	dirs, _ := filepath.Glob(filepath.Join(root, "cmd/obitools/*/main.go"))
	for _, mainFile := range dirs {
		name := filepath.Base(filepath.Dir(mainFile))
		src, err := os.ReadFile(mainFile)
		if err != nil {
			return err
		}
		fset := token.NewFileSet()
		f, err := parser.ParseFile(fset, mainFile, src, parser.ParseComments)
		if err != nil {
			return err
		}
		f.Name = ast.NewIdent("cmd_" + name)
		ok := false
		for _, d := range f.Decls {
			if fd, isf := d.(*ast.FuncDecl); isf && fd.Recv == nil && fd.Name.Name == "main" {
				fd.Name = ast.NewIdent("Main")
				ok = true
			}
		}
		if !ok {
			continue
		}
		var buf bytes.Buffer
		if err := format.Node(&buf, fset, f); err != nil {
			return err
		}
		dst := filepath.Join(root, "pkg/zverif/cmd", name)
		os.MkdirAll(dst, 0755)
		if err := os.WriteFile(filepath.Join(dst, "main.go"), buf.Bytes(), 0644); err != nil {
			return err
		}
		stats["T13_main_copied"]++
	}
	return nil
}

func main() {
	if len(os.Args) < 3 {
		fmt.Fprintln(os.Stderr, "usage: instrument <scratch-root> <verif-root>")
		os.Exit(2)
	}
	root, _ := filepath.Abs(os.Args[1])
	verif := os.Args[2]
	densePats := readList(filepath.Join(verif, "instrument/dense.txt"))
	hotPats := readList(filepath.Join(verif, "instrument/dense_hot.txt"))
	cfg := &packages.Config{
		Mode: packages.NeedName | packages.NeedFiles | packages.NeedCompiledGoFiles | packages.NeedSyntax | packages.NeedTypes | packages.NeedTypesInfo | packages.NeedImports | packages.NeedDeps,
		Dir:  root,
		Env:  append(os.Environ(), "GOWORK=off", "GOFLAGS=-mod=mod", "GOPROXY=off"),
	}
	pkgs, err := packages.Load(cfg, "./pkg/...", "./cmd/obitools/...")
	if err != nil {
		fmt.Fprintln(os.Stderr, "load:", err)
		os.Exit(2)
	}
	nerr := 0
	for _, p := range pkgs {
		for _, e := range p.Errors {
			fmt.Fprintln(os.Stderr, "type error:", e)
			nerr++
		}
	}
	if nerr > 0 {
		os.Exit(2)
	}
	for _, p := range pkgs {
		if strings.Contains(p.PkgPath, "/zverif/") {
			continue
		}
		typed := map[string]bool{}
		for i, f := range p.Syntax {
			path := p.CompiledGoFiles[i]
			if !strings.HasPrefix(path, root) || !strings.HasSuffix(path, ".go") || strings.HasSuffix(path, "_test.go") {
				continue
			}
			typed[path] = true
			rel, _ := filepath.Rel(root, path)
			c := &ctx{fset: p.Fset, info: p.TypesInfo, file: f, path: rel, dense: matchDense(rel, densePats)}
			if !c.dense && matchDense(rel, hotPats) {
				c.hot = true
				stats["T12_hot_files"]++
			}
			if c.dense {
				stats["T12_dense_files"]++
			}
			c.knobs(p.Name)
			c.rewrite()
			if err := c.finish(path); err != nil {
				fmt.Fprintln(os.Stderr, err)
				os.Exit(2)
			}
		}
		for _, path := range p.GoFiles {
			if typed[path] || strings.HasSuffix(path, "_test.go") {
				continue
			}
			fset := token.NewFileSet()
			f, err := parser.ParseFile(fset, path, nil, parser.ParseComments)
			if err != nil {
				fmt.Fprintln(os.Stderr, err)
				os.Exit(2)
			}
			stats["untyped_files"]++
			rel, _ := filepath.Rel(root, path)
			c := &ctx{fset: fset, file: f, path: rel}
			c.rewrite()
			if err := c.finish(path); err != nil {
				fmt.Fprintln(os.Stderr, err)
				os.Exit(2)
			}
		}
	}
	if err := copyMains(root); err != nil {
		fmt.Fprintln(os.Stderr, err)
		os.Exit(2)
	}
	sort.Strings(unsupported)
	out := map[string]any{"stats": stats, "uninstrumented": unsupported}
	b, _ := json.MarshalIndent(out, "", " ")
	os.WriteFile(filepath.Join(root, "instrument_stats.json"), b, 0644)
	keys := make([]string, 0)
	for k := range stats {
		keys = append(keys, k)
	}
	sort.Strings(keys)
	for _, k := range keys {
		fmt.Printf("%-28s %d\n", k, stats[k])
	}
}
