package obiiter

import "sync"

// ZVerifReset is added to the scratch copy only (never to /repo): it resets the global pipe
// registry so that a run that ended in a simulated exit does not contaminate the next run of
// the same worker process.  (The instrumenter rewrites sync.WaitGroup like everywhere else.)
func ZVerifReset() {
	globalLocker = sync.WaitGroup{}
	globalLockerCounter = 0
}
