// vcheck is the driver of the deterministic-simulation checks.
//
//	vcheck run <ID> [--tier quick|thorough] [--seed N] [--runs N] [--budget 120s]
//	vcheck replay <file>
//	vcheck selftest <ID> [--n 200]
//	vcheck build
//
// Exit status: 0 the property held on everything explored, 1 violation (with a line
// "VIOLATION property=<id> replay=<path>"), 2 build / watchdog / determinism trouble.
package main

import (
	"bufio"
	"bytes"
	"encoding/json"
	"flag"
	"fmt"
	"os"
	"os/exec"
	"path/filepath"
	"runtime"
	"sort"
	"strconv"
	"strings"
	"sync"
	"syscall"
	"time"
)

var verifRoot = "/verif"
var repoRoot = "/repo"

func fatal2(format string, a ...any) {
	fmt.Fprintf(os.Stderr, "vcheck: "+format+"\n", a...)
	os.Exit(2)
}

func goEnv() []string {
	env := []string{}
	for _, e := range os.Environ() {
		k := strings.SplitN(e, "=", 2)[0]
		switch k {
		case "GOFLAGS", "GOPROXY", "GOSUMDB", "GOTOOLCHAIN", "GOWORK", "PATH", "GOMAXPROCS", "VERIF_JOB":
			continue
		}
		env = append(env, e)
	}
	env = append(env, "GOFLAGS=-mod=mod", "GOPROXY=off", "GOSUMDB=off", "GOTOOLCHAIN=local", "GOWORK=off",
		"PATH=/opt/veriftools/go1.26.8/bin:"+os.Getenv("PATH"))
	return env
}

// ---------------------------------------------------------------- types shared with the harness

type Replay struct {
	Property string  `json:"property"`
	Tier     string  `json:"tier"`
	Index    int     `json:"index"`
	Seed     uint64  `json:"seed"`
	BaseSeed uint64  `json:"base_seed"`
	BySeed   bool    `json:"by_seed,omitempty"`
	Plan     []int32 `json:"plan"`
	Sched    []int32 `json:"sched"`
	Class    string  `json:"class,omitempty"`
	Msg      string  `json:"message,omitempty"`
	Detail   string  `json:"detail,omitempty"`
	Sample   any     `json:"sample,omitempty"`
	LogSHA   string  `json:"event_log_sha,omitempty"`
	Note     string  `json:"note,omitempty"`
}

type Job struct {
	Prop     string   `json:"prop"`
	Tier     string   `json:"tier"`
	Mode     string   `json:"mode"`
	BaseSeed uint64   `json:"base_seed"`
	Indices  []int    `json:"indices"`
	Replays  []Replay `json:"replays"`
	Dir      string   `json:"dir"`
}

type Outcome struct {
	Index      int            `json:"index"`
	Seed       uint64         `json:"seed"`
	Status     string         `json:"status"`
	Class      string         `json:"class,omitempty"`
	Msg        string         `json:"msg,omitempty"`
	Detail     string         `json:"detail,omitempty"`
	Sig        string         `json:"sig,omitempty"`
	Policy     string         `json:"policy,omitempty"`
	Steps      int            `json:"steps"`
	Contended  int            `json:"contended"`
	Tasks      int            `json:"tasks"`
	SimUS      int64          `json:"sim_us"`
	Faults     map[string]int `json:"faults,omitempty"`
	Probes     map[string]int `json:"probes,omitempty"`
	Key        string         `json:"key,omitempty"`
	Nontrivial bool           `json:"nontrivial"`
	Sample     any            `json:"sample,omitempty"`
	Plan       []int32        `json:"plan,omitempty"`
	Sched      []int32        `json:"sched,omitempty"`
	LogSHA     string         `json:"log_sha"`
	Enumerated bool           `json:"enumerated,omitempty"`
}

type Info struct {
	Prop       string   `json:"prop"`
	PerProcess bool     `json:"per_process"`
	JobTimeout int      `json:"job_timeout"`
	Enum       int      `json:"enum"`
	Random     int      `json:"random"`
	Real       []string `json:"real"`
	Stub       []string `json:"stub"`
	Rule       string   `json:"rule"`
	Level      string   `json:"level"`
	All        []string `json:"all"`
}

// ---------------------------------------------------------------- build

type Build struct {
	Dir       string
	Bin       string
	lock      *os.File
	InstStats map[string]any
	Seconds   float64
	Reused    bool
}

func hashTree(h *bytes.Buffer, root string, rel string, filter func(string) bool) {
	filepath.Walk(filepath.Join(root, rel), func(path string, info os.FileInfo, err error) error {
		if err != nil {
			return nil
		}
		if info.IsDir() {
			if info.Name() == ".git" {
				return filepath.SkipDir
			}
			return nil
		}
		if filter != nil && !filter(path) {
			return nil
		}
		b, err := os.ReadFile(path)
		if err != nil {
			return nil
		}
		fmt.Fprintf(h, "%s %d %x\n", path, len(b), fnv64(b))
		return nil
	})
}

func fnv64(b []byte) uint64 {
	h := uint64(14695981039346656037)
	for _, c := range b {
		h ^= uint64(c)
		h *= 1099511628211
	}
	return h
}

func notTest(p string) bool { return !strings.HasSuffix(p, "_test.go") }

func copyTree(src, dst string, filter func(string) bool) error {
	return filepath.Walk(src, func(path string, info os.FileInfo, err error) error {
		if err != nil {
			return err
		}
		rel, _ := filepath.Rel(src, path)
		target := filepath.Join(dst, rel)
		if info.IsDir() {
			return os.MkdirAll(target, 0755)
		}
		if !info.Mode().IsRegular() {
			return nil
		}
		if filter != nil && !filter(path) {
			return nil
		}
		b, err := os.ReadFile(path)
		if err != nil {
			return err
		}
		return os.WriteFile(target, b, 0644)
	})
}

func scratchRoot() string {
	if s := os.Getenv("VERIF_SCRATCH"); s != "" {
		return s
	}
	return "/tmp/verif-scratch"
}

func runCmd(dir string, env []string, name string, args ...string) (string, error) {
	if name == "go" {
		name = "/opt/veriftools/go1.26.8/bin/go"
		if _, err := os.Stat(name); err != nil {
			name = "go1.26.8"
		}
	}
	cmd := exec.Command(name, args...)
	cmd.Dir = dir
	cmd.Env = env
	var out bytes.Buffer
	cmd.Stdout = &out
	cmd.Stderr = &out
	err := cmd.Run()
	return out.String(), err
}

// prepare builds (or reuses) the instrumented harness binary for /repo's current working tree.
func prepare() *Build {
	start := time.Now()
	var hb bytes.Buffer
	hashTree(&hb, repoRoot, "pkg", notTest)
	hashTree(&hb, repoRoot, "cmd", notTest)
	for _, f := range []string{"go.mod", "go.sum"} {
		b, _ := os.ReadFile(filepath.Join(repoRoot, f))
		fmt.Fprintf(&hb, "%s %x\n", f, fnv64(b))
	}
	hashTree(&hb, verifRoot, "simrt", nil)
	hashTree(&hb, verifRoot, "harness", nil)
	hashTree(&hb, verifRoot, "instrument", nil)
	hashTree(&hb, verifRoot, "corpus", nil)
	key := fmt.Sprintf("%016x", fnv64(hb.Bytes()))
	root := scratchRoot()
	os.MkdirAll(root, 0755)
	dir := filepath.Join(root, "b-"+key)
	// Every run holds a shared lock on <slot>.lock for its whole life; building is serialised
	// by a second lock.  A slot of another tree is garbage-collected only when an exclusive
	// lock can be taken on its .lock file, i.e. when no run is using it (the lock file itself
	// is kept, so that its inode stays the meeting point).
	if ents, err := os.ReadDir(root); err == nil {
		for _, e := range ents {
			if !e.IsDir() || !strings.HasPrefix(e.Name(), "b-") || e.Name() == "b-"+key {
				continue
			}
			old := filepath.Join(root, e.Name())
			if lf, err := os.OpenFile(old+".lock", os.O_CREATE|os.O_RDWR, 0644); err == nil {
				if syscall.Flock(int(lf.Fd()), syscall.LOCK_EX|syscall.LOCK_NB) == nil {
					os.RemoveAll(old)
					syscall.Flock(int(lf.Fd()), syscall.LOCK_UN)
				}
				lf.Close()
			}
		}
	}
	lf, err := os.OpenFile(dir+".lock", os.O_CREATE|os.O_RDWR, 0644)
	if err != nil {
		fatal2("lock: %v", err)
	}
	if err := syscall.Flock(int(lf.Fd()), syscall.LOCK_SH); err != nil {
		fatal2("flock: %v", err)
	}
	bl, err := os.OpenFile(dir+".build.lock", os.O_CREATE|os.O_RDWR, 0644)
	if err != nil {
		fatal2("lock: %v", err)
	}
	if err := syscall.Flock(int(bl.Fd()), syscall.LOCK_EX); err != nil {
		fatal2("flock: %v", err)
	}
	defer bl.Close()
	b := &Build{Dir: dir, Bin: filepath.Join(dir, "bin", "harness.test"), lock: lf}
	if _, err := os.Stat(filepath.Join(dir, "ok")); err == nil {
		b.Reused = true
	} else {
		os.RemoveAll(dir)
		src := filepath.Join(dir, "src")
		os.MkdirAll(src, 0755)
		for _, d := range []string{"pkg", "cmd"} {
			if err := copyTree(filepath.Join(repoRoot, d), filepath.Join(src, d), notTest); err != nil {
				fatal2("copy: %v", err)
			}
		}
		for _, f := range []string{"go.mod", "go.sum"} {
			bb, _ := os.ReadFile(filepath.Join(repoRoot, f))
			os.WriteFile(filepath.Join(src, f), bb, 0644)
		}
		if err := copyTree(filepath.Join(verifRoot, "simrt"), filepath.Join(src, "pkg/zverif/simrt"), nil); err != nil {
			fatal2("copy simrt: %v", err)
		}
		if err := copyTree(filepath.Join(verifRoot, "instrument/overlay"), src, nil); err != nil {
			fatal2("copy overlay: %v", err)
		}
		inst := filepath.Join(verifRoot, "bin", "instrument")
		if _, err := os.Stat(inst); err != nil {
			if out, err := runCmd(verifRoot, goEnv(), "go", "build", "-o", inst, "./instrument"); err != nil {
				fatal2("building the instrumenter failed:\n%s", out)
			}
		}
		if out, err := runCmd(src, goEnv(), inst, src, verifRoot); err != nil {
			fatal2("instrumentation failed (the tree does not load or type-check?):\n%s", out)
		}
		// the harness is copied after instrumentation: it is not instrumented itself
		if err := copyTree(filepath.Join(verifRoot, "harness"), filepath.Join(src, "pkg/zverif/harness"), nil); err != nil {
			fatal2("copy harness: %v", err)
		}
		os.MkdirAll(filepath.Join(dir, "bin"), 0755)
		out, err := runCmd(src, goEnv(), "go", "test", "-c", "-tags", "verif", "-o", b.Bin, "./pkg/zverif/harness")
		if err != nil {
			fatal2("building the instrumented harness failed:\n%s", tail(out, 6000))
		}
		os.WriteFile(filepath.Join(dir, "ok"), []byte(time.Now().String()), 0644)
	}
	if raw, err := os.ReadFile(filepath.Join(dir, "src", "instrument_stats.json")); err == nil {
		json.Unmarshal(raw, &b.InstStats)
	}
	b.Seconds = time.Since(start).Seconds()
	return b
}

func tail(s string, n int) string {
	if len(s) > n {
		return "…" + s[len(s)-n:]
	}
	return s
}

// ---------------------------------------------------------------- worker execution

type jobResult struct {
	outcomes []Outcome
	info     *Info
	crashed  bool
	noStart  bool // the worker binary could not be started: infrastructure, never a violation
	timedOut bool
	begun    int // index last begun without result, or -1
	stderr   string
	wall     time.Duration
}

var jobCounter int
var jobMu sync.Mutex

func runJob(b *Build, job Job, timeout time.Duration, gomaxprocs int) jobResult {
	jobMu.Lock()
	jobCounter++
	n := jobCounter
	jobMu.Unlock()
	dir := filepath.Join(b.Dir, "runs", fmt.Sprintf("%d-%d", os.Getpid(), n))
	os.MkdirAll(dir, 0755)
	defer os.RemoveAll(dir)
	job.Dir = dir
	raw, _ := json.Marshal(job)
	jobFile := filepath.Join(dir, "job.json")
	os.WriteFile(jobFile, raw, 0644)
	cmd := exec.Command(b.Bin, "-test.run", "^TestWorker$", "-test.timeout", "0", "-test.count", "1")
	cmd.Dir = dir
	env := goEnv()
	env = append(env, "VERIF_JOB="+jobFile, "TMPDIR="+dir)
	if gomaxprocs > 0 {
		env = append(env, "GOMAXPROCS="+strconv.Itoa(gomaxprocs))
	}
	cmd.Env = env
	cmd.SysProcAttr = &syscall.SysProcAttr{Setpgid: true}
	var stdout, stderr bytes.Buffer
	cmd.Stdout = &stdout
	cmd.Stderr = &stderr
	start := time.Now()
	res := jobResult{begun: -1}
	if err := cmd.Start(); err != nil {
		res.crashed = true
		res.noStart = true
		res.stderr = err.Error()
		return res
	}
	done := make(chan error, 1)
	go func() { done <- cmd.Wait() }()
	var err error
	select {
	case err = <-done:
	case <-time.After(timeout):
		syscall.Kill(-cmd.Process.Pid, syscall.SIGKILL)
		<-done
		res.timedOut = true
	}
	res.wall = time.Since(start)
	sc := bufio.NewScanner(&stdout)
	sc.Buffer(make([]byte, 1<<20), 1<<28)
	ended := false
	for sc.Scan() {
		line := sc.Text()
		switch {
		case strings.HasPrefix(line, "BEGIN "):
			res.begun, _ = strconv.Atoi(line[6:])
		case strings.HasPrefix(line, "RESULT "):
			var o Outcome
			if json.Unmarshal([]byte(line[7:]), &o) == nil {
				res.outcomes = append(res.outcomes, o)
				res.begun = -1
			}
		case strings.HasPrefix(line, "INFO "):
			var i Info
			if json.Unmarshal([]byte(line[5:]), &i) == nil {
				res.info = &i
			}
		case line == "END":
			ended = true
		}
	}
	if !res.timedOut && (err != nil || !ended) {
		res.crashed = true
	}
	res.stderr = tail(stderr.String()+"\n"+tailLines(stdout.String(), 30), 4000)
	return res
}

func tailLines(s string, n int) string {
	lines := strings.Split(s, "\n")
	keep := []string{}
	for _, l := range lines {
		if strings.HasPrefix(l, "RESULT ") || strings.HasPrefix(l, "BEGIN ") {
			continue
		}
		keep = append(keep, l)
	}
	if len(keep) > n {
		keep = keep[len(keep)-n:]
	}
	return strings.Join(keep, "\n")
}

func getInfo(b *Build, prop, tier string) Info {
	r := runJob(b, Job{Prop: prop, Tier: tier, Mode: "info"}, 60*time.Second, 0)
	if r.info == nil {
		fatal2("worker did not answer the info request for %s:\n%s", prop, r.stderr)
	}
	return *r.info
}

// ---------------------------------------------------------------- known findings

type Finding struct {
	Property    string `json:"property"`
	Class       string `json:"class"`
	Status      string `json:"status"`
	Commit      string `json:"commit,omitempty"`
	Description string `json:"description"`
}

func loadFindings() []Finding {
	f, err := os.Open(filepath.Join(verifRoot, "known_findings.jsonl"))
	if err != nil {
		return nil
	}
	defer f.Close()
	var out []Finding
	sc := bufio.NewScanner(f)
	sc.Buffer(make([]byte, 1<<20), 1<<24)
	for sc.Scan() {
		l := strings.TrimSpace(sc.Text())
		if l == "" || strings.HasPrefix(l, "#") || strings.HasPrefix(l, "fixed:") {
			continue
		}
		var fd Finding
		if json.Unmarshal([]byte(l), &fd) == nil {
			out = append(out, fd)
		}
	}
	return out
}

func matchFinding(fs []Finding, prop, class string) *Finding {
	for i := range fs {
		f := &fs[i]
		if f.Property != prop || f.Status != "known" {
			continue
		}
		if f.Class == class || (strings.HasSuffix(f.Class, "*") && strings.HasPrefix(class, strings.TrimSuffix(f.Class, "*"))) {
			return f
		}
	}
	return nil
}

// ---------------------------------------------------------------- run

type runOpts struct {
	prop    string
	tier    string
	seed    uint64
	runs    int
	budget  time.Duration
	workers int
	noMin   bool
	first   int
}

func parallelJobs(b *Build, jobs []Job, workers int, timeout time.Duration, deadline time.Time, sink func(Job, jobResult)) (skipped int) {
	var wg sync.WaitGroup
	ch := make(chan Job)
	var mu sync.Mutex
	for w := 0; w < workers; w++ {
		wg.Add(1)
		go func() {
			defer wg.Done()
			for j := range ch {
				r := runJob(b, j, timeout, 0)
				mu.Lock()
				sink(j, r)
				mu.Unlock()
			}
		}()
	}
	for i, j := range jobs {
		if !deadline.IsZero() && time.Now().After(deadline) {
			for _, jj := range jobs[i:] {
				skipped += len(jj.Indices)
			}
			break
		}
		ch <- j
	}
	close(ch)
	wg.Wait()
	return skipped
}

func doRun(o runOpts) int {
	start := time.Now()
	b := prepare()
	defer b.lock.Close()
	info := getInfo(b, o.prop, o.tier)
	total := info.Enum + info.Random
	if o.runs > 0 {
		total = o.runs
	}
	chunk := 40
	if info.PerProcess {
		chunk = 1
	}
	if o.tier == "thorough" && !info.PerProcess {
		chunk = 150
	}
	var jobs []Job
	for i := o.first; i < total; i += chunk {
		idx := []int{}
		for k := i; k < i+chunk && k < total; k++ {
			idx = append(idx, k)
		}
		jobs = append(jobs, Job{Prop: o.prop, Tier: o.tier, Mode: "run", BaseSeed: o.seed, Indices: idx})
	}
	deadline := start.Add(o.budget)
	jobTimeout := 180 * time.Second
	if info.PerProcess {
		jobTimeout = 90 * time.Second
	}
	if d := time.Duration(info.JobTimeout) * time.Second; d > jobTimeout {
		jobTimeout = d
	}
	var outcomes []Outcome
	infra := []string{}
	var retry []Job
	sink := func(j Job, r jobResult) {
		outcomes = append(outcomes, r.outcomes...)
		if r.crashed || r.timedOut {
			done := map[int]bool{}
			for _, oc := range r.outcomes {
				done[oc.Index] = true
			}
			if len(j.Indices) == 1 {
				idx := j.Indices[0]
				if r.noStart {
					if len(infra) < 20 {
						infra = append(infra, fmt.Sprintf("index %d: the worker could not be started: %s", idx, r.stderr))
					}
				} else if r.timedOut {
					infra = append(infra, fmt.Sprintf("index %d: worker killed by the watchdog after %v", idx, r.wall.Round(time.Second)))
				} else {
					outcomes = append(outcomes, Outcome{Index: idx, Status: "crash", Class: o.prop + "/process-crash",
						Msg: "the worker process died during this run:\n" + tail(r.stderr, 2500)})
				}
				return
			}
			// re-run the unfinished indices one per process to attribute the failure
			for _, idx := range j.Indices {
				if !done[idx] {
					retry = append(retry, Job{Prop: o.prop, Tier: o.tier, Mode: "run", BaseSeed: o.seed, Indices: []int{idx}})
				}
			}
		}
	}
	skipped := parallelJobs(b, jobs, o.workers, jobTimeout, deadline, sink)
	if len(retry) > 0 {
		rj := retry
		retry = nil
		parallelJobs(b, rj, o.workers, jobTimeout, time.Time{}, sink)
	}
	sort.Slice(outcomes, func(i, j int) bool { return outcomes[i].Index < outcomes[j].Index })

	// ---- determinism spot-check: re-run a sample alone, in other processes, other GOMAXPROCS
	nondet := []string{}
	if len(outcomes) > 0 {
		nd := 16
		if o.tier == "thorough" {
			nd = 120
		}
		if info.PerProcess {
			nd /= 2
		}
		step := len(outcomes)/nd + 1
		var djobs []Job
		want := map[int]Outcome{}
		for i := 0; i < len(outcomes); i += step {
			oc := outcomes[i]
			if oc.Status == "crash" {
				continue
			}
			want[oc.Index] = oc
			djobs = append(djobs, Job{Prop: o.prop, Tier: o.tier, Mode: "run", BaseSeed: o.seed, Indices: []int{oc.Index}})
		}
		var mu sync.Mutex
		var wg sync.WaitGroup
		sem := make(chan struct{}, o.workers)
		for k, j := range djobs {
			wg.Add(1)
			sem <- struct{}{}
			go func(k int, j Job) {
				defer wg.Done()
				defer func() { <-sem }()
				// same GOMAXPROCS as the first run: the zstd decoder of the repository's
				// dependencies switches between a synchronous and a goroutine-based mode on
				// GOMAXPROCS, which moves the step at which an input error surfaces (the
				// outcome is the same).  `vcheck selftest` is where GOMAXPROCS is varied.
				_ = k
				r := runJob(b, j, jobTimeout, 0)
				mu.Lock()
				defer mu.Unlock()
				if len(r.outcomes) != 1 {
					nondet = append(nondet, fmt.Sprintf("index %d: no result when re-run alone (crashed=%v timedOut=%v)", j.Indices[0], r.crashed, r.timedOut))
					return
				}
				w := want[j.Indices[0]]
				g := r.outcomes[0]
				if g.LogSHA != w.LogSHA || g.Status != w.Status || g.Class != w.Class || g.Sig != w.Sig {
					nondet = append(nondet, fmt.Sprintf("index %d: first run status=%s class=%s sig=%s log=%s; re-run alone status=%s class=%s sig=%s log=%s",
						w.Index, w.Status, w.Class, w.Sig, w.LogSHA, g.Status, g.Class, g.Sig, g.LogSHA))
				}
			}(k, j)
		}
		wg.Wait()
	}

	// ---- classify
	findings := loadFindings()
	byClass := map[string][]Outcome{}
	inconclusive := 0
	inconcl := []string{}
	for _, oc := range outcomes {
		switch oc.Status {
		case "violation", "crash":
			byClass[oc.Class] = append(byClass[oc.Class], oc)
		case "inconclusive":
			inconclusive++
			if len(inconcl) < 10 {
				inconcl = append(inconcl, fmt.Sprintf("index %d inconclusive: %s", oc.Index, oc.Msg))
			}
		}
	}
	classes := []string{}
	for c := range byClass {
		classes = append(classes, c)
	}
	sort.Strings(classes)
	exit := 0
	violations := 0
	knownHit := map[string]int{}
	minimised := 0
	for _, c := range classes {
		ocs := byClass[c]
		if f := matchFinding(findings, o.prop, c); f != nil {
			knownHit[c] = len(ocs)
			fmt.Printf("KNOWN-FINDING: property=%s class=%s (%d runs) %s\n", o.prop, c, len(ocs), f.Description)
			continue
		}
		violations += len(ocs)
		exit = 1
		first := ocs[0]
		rp := Replay{Property: o.prop, Tier: o.tier, Index: first.Index, Seed: first.Seed, BaseSeed: o.seed, Plan: first.Plan, Sched: first.Sched,
			Class: first.Class, Msg: first.Msg, Detail: first.Detail, Sample: first.Sample, LogSHA: first.LogSHA}
		if first.Status == "crash" {
			rp.BySeed = true
			rp.Note = "the worker process died; replay re-runs the same index from its seed"
		} else if !o.noMin && minimised < 3 {
			minimised++
			rp = minimise(b, rp, info.PerProcess, o.workers)
		}
		path := writeReplay(rp)
		fmt.Printf("VIOLATION property=%s replay=%s\n", o.prop, path)
		fmt.Printf("  class=%s runs=%d first_index=%d\n  %s\n", c, len(ocs), first.Index, strings.ReplaceAll(clip(first.Msg, 1200), "\n", "\n  "))
	}
	if len(nondet) > 0 {
		for _, l := range nondet {
			fmt.Fprintln(os.Stderr, "NONDETERMINISM:", l)
		}
	}
	for _, l := range infra {
		fmt.Fprintln(os.Stderr, "INFRA:", l)
	}
	// A run that exhausts its own step or time budget decides nothing - it is neither a
	// violation nor a failure of the machinery - and is reported as such; only when more than
	// one run in a hundred ends that way is the whole check considered not to have worked.
	for _, l := range inconcl {
		fmt.Fprintln(os.Stderr, "INCONCLUSIVE:", l)
	}
	if inconclusive*100 > len(outcomes) {
		infra = append(infra, fmt.Sprintf("%d of %d runs were inconclusive", inconclusive, len(outcomes)))
	}
	writeEvidence(o, b, info, outcomes, knownHit, violations, inconclusive, skipped, len(nondet), append(append([]string{}, infra...), inconcl...), time.Since(start))
	fmt.Printf("vcheck %s tier=%s seed=%d: %d runs (%d enumerated) in %.1fs (build %.1fs reused=%v), violations=%d known=%d inconclusive=%d skipped=%d nondeterministic=%d\n",
		o.prop, o.tier, o.seed, len(outcomes), minInt(info.Enum, len(outcomes)), time.Since(start).Seconds(), b.Seconds, b.Reused, violations, len(knownHit), inconclusive, skipped, len(nondet))
	if exit == 1 {
		return 1
	}
	if len(nondet) > 0 || len(infra) > 0 || len(outcomes) == 0 {
		return 2
	}
	return 0
}

func minInt(a, b int) int {
	if a < b {
		return a
	}
	return b
}

func clip(s string, n int) string {
	if len(s) > n {
		return s[:n] + "…"
	}
	return s
}

func writeReplay(rp Replay) string {
	dir := filepath.Join(verifRoot, "replays", rp.Property)
	os.MkdirAll(dir, 0755)
	name := fmt.Sprintf("%s-%d.json", sanitize(rp.Class), rp.Seed%1000000)
	path := filepath.Join(dir, name)
	b, _ := json.MarshalIndent(rp, "", " ")
	os.WriteFile(path, b, 0644)
	return path
}

func sanitize(s string) string {
	r := strings.NewReplacer("/", "_", "[", "_", "]", "", "=", "", ",", "_", " ", "_", ":", "_")
	return r.Replace(s)
}

// ---------------------------------------------------------------- minimisation

func replayBatch(b *Build, prop, tier string, cands []Replay, perProcess bool, workers int) []*Outcome {
	res := make([]*Outcome, len(cands))
	if perProcess {
		var wg sync.WaitGroup
		sem := make(chan struct{}, workers)
		for i := range cands {
			wg.Add(1)
			sem <- struct{}{}
			go func(i int) {
				defer wg.Done()
				defer func() { <-sem }()
				r := runJob(b, Job{Prop: prop, Tier: tier, Mode: "replay", Replays: []Replay{cands[i]}}, 60*time.Second, 0)
				if len(r.outcomes) == 1 {
					res[i] = &r.outcomes[0]
				}
			}(i)
		}
		wg.Wait()
		return res
	}
	// library families: spread candidates over a few processes
	per := (len(cands) + workers - 1) / workers
	if per < 1 {
		per = 1
	}
	var wg sync.WaitGroup
	for s := 0; s < len(cands); s += per {
		e := s + per
		if e > len(cands) {
			e = len(cands)
		}
		wg.Add(1)
		go func(s, e int) {
			defer wg.Done()
			r := runJob(b, Job{Prop: prop, Tier: tier, Mode: "replay", Replays: cands[s:e]}, 120*time.Second, 0)
			for _, oc := range r.outcomes {
				oc := oc
				if oc.Index >= 0 && s+oc.Index < e {
					res[s+oc.Index] = &oc
				}
			}
		}(s, e)
	}
	wg.Wait()
	return res
}

func cloneTape(t []int32) []int32 { return append([]int32(nil), t...) }

// candidates produces simpler variants of a tape, most aggressive first.
func tapeCandidates(t []int32) [][]int32 {
	var out [][]int32
	n := len(t)
	if n == 0 {
		return nil
	}
	// truncations (the rest falls back to choice 0)
	for _, k := range []int{0, n / 8, n / 4, n / 2, 3 * n / 4, n - 1} {
		if k >= 0 && k < n {
			out = append(out, cloneTape(t[:k]))
		}
	}
	// delete / zero blocks
	for size := n / 2; size >= 1; size /= 2 {
		limit := 0
		for s := 0; s+size <= n; s += size {
			del := append(cloneTape(t[:s]), t[s+size:]...)
			out = append(out, del)
			zero := cloneTape(t)
			changed := false
			for i := s; i < s+size; i++ {
				if zero[i] != 0 {
					zero[i] = 0
					changed = true
				}
			}
			if changed {
				out = append(out, zero)
			}
			limit++
			if limit > 24 {
				break
			}
		}
		if len(out) > 160 {
			break
		}
	}
	return out
}

func tapeCost(plan, sched []int32) int {
	c := 0
	for _, v := range plan {
		c += 4
		if v != 0 {
			c += 4 + int(v)
		}
	}
	for _, v := range sched {
		c += 1
		if v != 0 {
			c += 1
		}
	}
	return c
}

func minimise(b *Build, rp Replay, perProcess bool, workers int) Replay {
	deadline := time.Now().Add(100 * time.Second)
	best := rp
	bestCost := tapeCost(best.Plan, best.Sched)
	tried := 0
	for round := 0; round < 40 && time.Now().Before(deadline); round++ {
		var cands []Replay
		for _, p := range tapeCandidates(best.Plan) {
			c := best
			c.Plan = p
			cands = append(cands, c)
		}
		for _, s := range tapeCandidates(best.Sched) {
			c := best
			c.Sched = s
			cands = append(cands, c)
		}
		// keep only candidates that are cheaper
		var keep []Replay
		for _, c := range cands {
			if tapeCost(c.Plan, c.Sched) < bestCost {
				keep = append(keep, c)
			}
		}
		if len(keep) == 0 {
			break
		}
		if len(keep) > 96 {
			keep = keep[:96]
		}
		res := replayBatch(b, rp.Property, rp.Tier, keep, perProcess, workers)
		tried += len(keep)
		improved := false
		for i, oc := range res {
			if oc == nil || oc.Status != "violation" || oc.Class != rp.Class {
				continue
			}
			cost := tapeCost(keep[i].Plan, keep[i].Sched)
			if cost < bestCost {
				bestCost = cost
				best = keep[i]
				best.Msg, best.Detail, best.Sample, best.LogSHA = oc.Msg, oc.Detail, oc.Sample, oc.LogSHA
				// the tapes actually consumed are the canonical form
				if oc.Plan != nil {
					best.Plan = oc.Plan
				}
				if oc.Sched != nil {
					best.Sched = oc.Sched
				}
				improved = true
			}
		}
		if !improved {
			break
		}
	}
	// final check: the minimised file must reproduce, twice, with the same event log
	res := replayBatch(b, rp.Property, rp.Tier, []Replay{best, best}, true, 2)
	ok := res[0] != nil && res[1] != nil && res[0].Status == "violation" && res[0].Class == rp.Class && res[0].LogSHA == res[1].LogSHA
	if !ok {
		rp.Note = "minimised candidate did not replay stably; this is the un-minimised run"
		return rp
	}
	best.LogSHA = res[0].LogSHA
	best.Note = fmt.Sprintf("minimised from plan=%d/sched=%d choices to plan=%d/sched=%d (%d candidates tried)", len(rp.Plan), len(rp.Sched), len(best.Plan), len(best.Sched), tried)
	return best
}

// ---------------------------------------------------------------- evidence

func writeEvidence(o runOpts, b *Build, info Info, outcomes []Outcome, known map[string]int, violations, inconclusive, skipped, nondet int, infra []string, wall time.Duration) {
	distinct := map[string]bool{}
	sigs := map[string]bool{}
	steps, contended, tasks := 0, 0, 0
	var simUS int64
	faults := map[string]int{}
	probes := map[string]int{}
	policies := map[string]int{}
	enumerated := 0
	samples := []any{}
	for _, oc := range outcomes {
		if oc.Nontrivial && oc.Key != "" {
			distinct[oc.Key] = true
		}
		if oc.Sig != "" {
			sigs[oc.Sig] = true
		}
		steps += oc.Steps
		contended += oc.Contended
		tasks += oc.Tasks
		simUS += oc.SimUS
		for k, v := range oc.Faults {
			faults[k] += v
		}
		for k, v := range oc.Probes {
			probes[k] += v
		}
		if oc.Policy != "" {
			policies[oc.Policy]++
		}
		if oc.Enumerated {
			enumerated++
		}
	}
	stepN := len(outcomes)/6 + 1
	for i := 0; i < len(outcomes) && len(samples) < 6; i += stepN {
		oc := outcomes[i]
		samples = append(samples, map[string]any{"index": oc.Index, "seed": oc.Seed, "case": oc.Sample, "status": oc.Status,
			"schedule_signature": oc.Sig, "policy": oc.Policy, "sched_steps": oc.Steps, "faults": oc.Faults})
	}
	exhaustive := false
	cov := map[string]any{
		"evaluations":                  len(outcomes),
		"distinct_nontrivial":          len(distinct),
		"rule":                         info.Rule,
		"samples":                      samples,
		"exhaustive":                   exhaustive,
		"enumerated_cases_run":         enumerated,
		"enumerated_cases_total":       info.Enum,
		"random_cases_run":             len(outcomes) - enumerated,
		"runs_per_hour":                int(float64(len(outcomes)) / wall.Hours()),
		"sched_steps":                  steps,
		"sched_steps_contended":        contended,
		"tasks_spawned":                tasks,
		"distinct_schedule_signatures": len(sigs),
		"simulated_time_ms":            float64(simUS) / 1000.0,
		"faults_fired":                 faults,
		"probes":                       probes,
		"policies":                     policies,
		"known_findings_hit":           known,
		"inconclusive_runs":            inconclusive,
		"skipped_for_budget":           skipped,
		"nondeterministic_reruns":      nondet,
		"infrastructure_messages":      infra,
		"components":                   map[string]any{"real": info.Real, "stub": info.Stub},
		"instrumentation":              b.InstStats,
		"build_seconds":                b.Seconds,
		"build_reused":                 b.Reused,
		"workers":                      o.workers,
	}
	ev := map[string]any{
		"property_id": o.prop,
		"tier":        o.tier,
		"seed":        o.seed,
		"level":       info.Level,
		"coverage":    cov,
		"assumptions": []string{
			"the instrumented scratch copy behaves like the shipped code: transformations only add scheduling points, replace sync primitives by semantically equivalent or more restrictive ones (DESIGN.md 3.3)",
			"goroutines of third-party libraries (pgzip) run freely inside the step that triggered them; their visible effect is a function of their input",
			"sampling, not enumeration, outside the sub-spaces named in the rule",
		},
		"wall_s":     wall.Seconds(),
		"violations": violations,
	}
	os.MkdirAll(filepath.Join(verifRoot, "evidence"), 0755)
	raw, _ := json.MarshalIndent(ev, "", " ")
	os.WriteFile(filepath.Join(verifRoot, "evidence", o.prop+".json"), raw, 0644)
}

// ---------------------------------------------------------------- replay / selftest

func doReplay(path string) int {
	raw, err := os.ReadFile(path)
	if err != nil {
		fatal2("%v", err)
	}
	var rp Replay
	if err := json.Unmarshal(raw, &rp); err != nil {
		fatal2("%v", err)
	}
	b := prepare()
	defer b.lock.Close()
	var r jobResult
	if rp.BySeed {
		r = runJob(b, Job{Prop: rp.Property, Tier: rp.Tier, Mode: "run", BaseSeed: rp.BaseSeed, Indices: []int{rp.Index}}, 120*time.Second, 0)
		if r.crashed {
			fmt.Printf("VIOLATION property=%s replay=%s\n  reproduced: the worker process died again\n%s\n", rp.Property, path, tail(r.stderr, 2000))
			return 1
		}
	} else {
		r = runJob(b, Job{Prop: rp.Property, Tier: rp.Tier, Mode: "replay", Replays: []Replay{rp}}, 120*time.Second, 0)
	}
	if len(r.outcomes) != 1 {
		fatal2("replay produced no result:\n%s", r.stderr)
	}
	oc := r.outcomes[0]
	fmt.Printf("replay: status=%s class=%s log_sha=%s (recorded class=%s log_sha=%s)\n%s\n", oc.Status, oc.Class, oc.LogSHA, rp.Class, rp.LogSHA, oc.Msg)
	if oc.Status == "violation" {
		fmt.Printf("VIOLATION property=%s replay=%s\n", rp.Property, path)
		return 1
	}
	return 0
}

func doSelftest(prop, tier string, n int, seed uint64) int {
	b := prepare()
	defer b.lock.Close()
	info := getInfo(b, prop, tier)
	total := info.Enum + info.Random
	if n > total {
		n = total
	}
	idx := make([]int, n)
	step := total / n
	for i := range idx {
		idx[i] = i * step
	}
	type cfg struct {
		gmp   int
		gogc  string
		chunk int
		rev   bool
	}
	cfgs := []cfg{{1, "100", 25, false}, {4, "20", 1, false}, {16, "100", 25, true}}
	if info.PerProcess {
		cfgs = []cfg{{1, "100", 1, false}, {4, "20", 1, false}, {16, "100", 1, true}}
	}
	results := make([]map[int]Outcome, len(cfgs))
	for ci, c := range cfgs {
		results[ci] = map[int]Outcome{}
		order := append([]int(nil), idx...)
		if c.rev {
			for i, j := 0, len(order)-1; i < j; i, j = i+1, j-1 {
				order[i], order[j] = order[j], order[i]
			}
		}
		var jobs []Job
		for i := 0; i < len(order); i += c.chunk {
			e := i + c.chunk
			if e > len(order) {
				e = len(order)
			}
			jobs = append(jobs, Job{Prop: prop, Tier: tier, Mode: "run", BaseSeed: seed, Indices: order[i:e]})
		}
		os.Setenv("GOGC", c.gogc)
		var mu sync.Mutex
		var wg sync.WaitGroup
		sem := make(chan struct{}, runtime.NumCPU())
		for _, j := range jobs {
			wg.Add(1)
			sem <- struct{}{}
			go func(j Job) {
				defer wg.Done()
				defer func() { <-sem }()
				r := runJob(b, j, 300*time.Second, c.gmp)
				mu.Lock()
				for _, oc := range r.outcomes {
					results[ci][oc.Index] = oc
				}
				mu.Unlock()
			}(j)
		}
		wg.Wait()
	}
	os.Unsetenv("GOGC")
	bad := 0
	sigs := map[string]bool{}
	for _, i := range idx {
		a, ok := results[0][i]
		if !ok {
			fmt.Printf("selftest: index %d has no result in configuration 0\n", i)
			bad++
			continue
		}
		sigs[a.Sig] = true
		for ci := 1; ci < len(cfgs); ci++ {
			g, ok := results[ci][i]
			if !ok || g.LogSHA != a.LogSHA || g.Sig != a.Sig || g.Status != a.Status || g.Class != a.Class {
				fmt.Printf("selftest: index %d differs between configuration 0 and %d: %s/%s/%s/%s vs %s/%s/%s/%s (present=%v)\n", i, ci,
					a.Status, a.Class, a.Sig, a.LogSHA, g.Status, g.Class, g.Sig, g.LogSHA, ok)
				bad++
			}
		}
	}
	fmt.Printf("selftest %s: %d indices x %d configurations (GOMAXPROCS 1/4/16, GOGC 100/20, batch composition and order varied), %d distinct schedule signatures, %d mismatches\n",
		prop, len(idx), len(cfgs), len(sigs), bad)
	if bad > 0 {
		return 2
	}
	return 0
}

func main() {
	if len(os.Args) < 2 {
		fatal2("usage: vcheck run|replay|selftest|build ...")
	}
	if v := os.Getenv("VERIF_ROOT"); v != "" {
		verifRoot = v
	}
	if v := os.Getenv("VERIF_REPO"); v != "" {
		repoRoot = v
	}
	switch os.Args[1] {
	case "build":
		b := prepare()
		fmt.Printf("built %s in %.1fs (reused=%v)\n", b.Bin, b.Seconds, b.Reused)
		b.lock.Close()
	case "run":
		fs := flag.NewFlagSet("run", flag.ExitOnError)
		tier := fs.String("tier", "", "quick|thorough")
		seed := fs.Uint64("seed", 0, "base seed (default $VERIF_SEED or 1)")
		runs := fs.Int("runs", 0, "override the number of runs")
		budget := fs.Duration("budget", 0, "wall-clock budget for the search")
		workers := fs.Int("workers", runtime.NumCPU(), "parallel worker processes")
		noMin := fs.Bool("no-minimise", false, "skip minimisation")
		first := fs.Int("first", 0, "first index to run (to resume or to look at a range)")
		if len(os.Args) < 3 {
			fatal2("usage: vcheck run <ID> ...")
		}
		fs.Parse(os.Args[3:])
		o := runOpts{prop: os.Args[2], tier: *tier, seed: *seed, runs: *runs, budget: *budget, workers: *workers, noMin: *noMin, first: *first}
		if o.tier == "" {
			o.tier = os.Getenv("VERIF_TIER")
		}
		if o.tier != "thorough" {
			o.tier = "quick"
		}
		if o.seed == 0 {
			if v, err := strconv.ParseUint(os.Getenv("VERIF_SEED"), 10, 64); err == nil && v != 0 {
				o.seed = v
			} else {
				o.seed = 1
			}
		}
		if o.budget == 0 {
			o.budget = 150 * time.Second
			if o.tier == "thorough" {
				o.budget = 40 * time.Minute
			}
		}
		os.Exit(doRun(o))
	case "replay":
		if len(os.Args) < 3 {
			fatal2("usage: vcheck replay <file>")
		}
		os.Exit(doReplay(os.Args[2]))
	case "selftest":
		fs := flag.NewFlagSet("selftest", flag.ExitOnError)
		n := fs.Int("n", 200, "number of indices")
		tier := fs.String("tier", "quick", "tier")
		seed := fs.Uint64("seed", 1, "base seed")
		if len(os.Args) < 3 {
			fatal2("usage: vcheck selftest <ID>")
		}
		fs.Parse(os.Args[3:])
		os.Exit(doSelftest(os.Args[2], *tier, *n, *seed))
	default:
		fatal2("unknown command %q", os.Args[1])
	}
}
