package simrt

import (
	"cmp"
	"fmt"
	"iter"
	"runtime"
	"sort"
	"sync"
	"time"
)

// ---------------------------------------------------------------- channels

func opPoint(what string) (*Sim, *Task) {
	s, t := me()
	if t == nil {
		return nil, nil
	}
	var pcs [1]uintptr
	runtime.Callers(3, pcs[:])
	t.pc = pcs[0]
	s.park(t)
	t.state = what
	return s, t
}

func after(s *Sim, t *Task) {
	if t != nil {
		s.park(t)
	}
}

func Send[C ~chan T | ~chan<- T, T any](ch C, v T) {
	s, t := opPoint("blocked natively (send)")
	(chan<- T)(ch) <- v
	after(s, t)
}

func Recv[C ~chan T | ~<-chan T, T any](ch C) T {
	s, t := opPoint("blocked natively (receive)")
	v := <-(<-chan T)(ch)
	after(s, t)
	return v
}

func Recv2[C ~chan T | ~<-chan T, T any](ch C) (T, bool) {
	s, t := opPoint("blocked natively (receive)")
	v, ok := <-(<-chan T)(ch)
	after(s, t)
	return v, ok
}

func Close[C ~chan T | ~chan<- T, T any](ch C) {
	opPoint("closing")
	close((chan<- T)(ch))
}

func RangeChan[C ~chan T | ~<-chan T, T any](ch C) iter.Seq[T] {
	return func(yield func(T) bool) {
		for {
			v, ok := Recv2[C, T](ch)
			if !ok {
				return
			}
			if !yield(v) {
				return
			}
		}
	}
}

// ---------------------------------------------------------------- map iteration order

// MapKeys returns the keys of m sorted, then permuted from the run's tape: Go's randomised
// map order becomes a replayable, searched dimension.
func MapKeys[M ~map[K]V, K cmp.Ordered, V any](m M) []K {
	keys := make([]K, 0, len(m))
	for k := range m {
		keys = append(keys, k)
	}
	sort.Slice(keys, func(i, j int) bool { return keys[i] < keys[j] })
	permute(len(keys), func(i, j int) { keys[i], keys[j] = keys[j], keys[i] })
	return keys
}

// MapKeysAny is MapKeys for comparable keys without a natural order (structs, arrays): the
// canonical order is that of fmt.Sprint of the key.
func MapKeysAny[M ~map[K]V, K comparable, V any](m M) []K {
	type kv struct {
		k K
		s string
	}
	ks := make([]kv, 0, len(m))
	for k := range m {
		ks = append(ks, kv{k, fmt.Sprintf("%#v", k)})
	}
	sort.Slice(ks, func(i, j int) bool { return ks[i].s < ks[j].s })
	keys := make([]K, len(ks))
	for i := range ks {
		keys[i] = ks[i].k
	}
	permute(len(keys), func(i, j int) { keys[i], keys[j] = keys[j], keys[i] })
	return keys
}

func permute(n int, swap func(i, j int)) {
	s, t := me()
	if t == nil || n < 2 {
		return
	}
	// one coin first: the identity (sorted order) is the simple choice
	if s.tape.Choose(4) == 0 {
		return
	}
	s.mu.Lock()
	s.probes["map_order_permuted"]++
	s.mu.Unlock()
	for i := n - 1; i > 0; i-- {
		j := s.tape.Choose(i + 1)
		swap(i, j)
	}
}

// ---------------------------------------------------------------- sync replacements

type Mutex struct {
	mu sync.Mutex
}

func (m *Mutex) Lock() {
	_, t := opPoint("locking")
	if t == nil {
		m.mu.Lock()
		return
	}
	lockLoop(m, "waiting for Mutex", m.mu.TryLock)
}

func (m *Mutex) Unlock()       { m.mu.Unlock(); signal(m); AfterUnlock() }
func (m *Mutex) TryLock() bool { return m.mu.TryLock() }

type RWMutex struct {
	mu sync.RWMutex
}

func lockLoop(key any, what string, try func() bool) {
	for {
		got := false
		if !blockOn(key, what, func() bool { got = try(); return got }) {
			return // not a task: caller handles
		}
		if got {
			return
		}
	}
}

func (m *RWMutex) Lock() {
	_, t := opPoint("locking")
	if t == nil {
		m.mu.Lock()
		return
	}
	lockLoop(m, "waiting for RWMutex (write)", m.mu.TryLock)
}
func (m *RWMutex) Unlock() { m.mu.Unlock(); signal(m); AfterUnlock() }
func (m *RWMutex) RLock() {
	_, t := opPoint("locking")
	if t == nil {
		m.mu.RLock()
		return
	}
	lockLoop(m, "waiting for RWMutex (read)", m.mu.TryRLock)
}
func (m *RWMutex) RUnlock()       { m.mu.RUnlock(); signal(m); AfterUnlock() }
func (m *RWMutex) TryLock() bool  { return m.mu.TryLock() }
func (m *RWMutex) TryRLock() bool { return m.mu.TryRLock() }
func (m *RWMutex) RLocker() sync.Locker {
	return rlocker{m}
}

type rlocker struct{ m *RWMutex }

func (r rlocker) Lock()   { r.m.RLock() }
func (r rlocker) Unlock() { r.m.RUnlock() }

type WaitGroup struct {
	mu sync.Mutex
	n  int
}

func (w *WaitGroup) Add(d int) {
	w.mu.Lock()
	w.n += d
	n := w.n
	w.mu.Unlock()
	if n < 0 {
		panic("sync: negative WaitGroup counter")
	}
	if n == 0 {
		signal(w)
	}
}
func (w *WaitGroup) Done() { w.Add(-1) }
func (w *WaitGroup) zero() bool {
	w.mu.Lock()
	defer w.mu.Unlock()
	return w.n == 0
}
func (w *WaitGroup) Wait() {
	s, t := opPoint("waiting")
	if t == nil {
		for !w.zero() {
			time.Sleep(time.Microsecond)
		}
		return
	}
	for !w.zero() {
		blockOn(w, "waiting for WaitGroup", w.zero)
	}
	after(s, t)
}
func (w *WaitGroup) Go(f func()) {
	w.Add(1)
	Go("WaitGroup.Go", func() { defer w.Done(); f() })
}

type Once struct {
	m    Mutex
	done bool
}

func (o *Once) Do(f func()) {
	o.m.Lock()
	defer o.m.Unlock()
	if !o.done {
		defer func() { o.done = true }()
		f()
	}
}

// Pool is a deterministic sync.Pool.  Every behaviour it has is a legal behaviour of
// sync.Pool (which may return any previously Put item, or a new one).  Byte slices are
// poisoned on Put so that a stale alias reads garbage deterministically.
type Pool struct {
	New   func() any
	mu    sync.Mutex
	items []any
}

const Poison = 0xDB

var poolsMu sync.Mutex
var pools = map[*Pool]bool{}

func (p *Pool) register() {
	poolsMu.Lock()
	pools[p] = true
	poolsMu.Unlock()
}

// ResetPools empties every pool that was ever used (start of each run).
func ResetPools() {
	poolsMu.Lock()
	for p := range pools {
		p.Reset()
	}
	poolsMu.Unlock()
}

func (p *Pool) Get() any {
	p.register()
	pol := 0
	s, t := me()
	if s != nil {
		pol = s.cfg.PoolPolicy
	}
	p.mu.Lock()
	if n := len(p.items); n > 0 && pol != 3 {
		i := n - 1
		switch pol {
		case 1:
			i = 0
		case 2:
			if t != nil {
				i = s.tape.Choose(n)
			}
		}
		x := p.items[i]
		p.items = append(p.items[:i], p.items[i+1:]...)
		p.mu.Unlock()
		if s != nil {
			s.mu.Lock()
			s.probes["pool_reuse"]++
			s.mu.Unlock()
		}
		return x
	}
	p.mu.Unlock()
	if p.New != nil {
		return p.New()
	}
	return nil
}

func (p *Pool) Put(x any) {
	if b, ok := x.(*[]byte); ok && b != nil {
		full := (*b)[:cap(*b)]
		for i := range full {
			full[i] = Poison
		}
	}
	p.register()
	s := current()
	if s != nil && s.cfg.PoolPolicy == 3 {
		return
	}
	if s != nil {
		s.mu.Lock()
		s.probes["pool_put"]++
		s.mu.Unlock()
	}
	p.mu.Lock()
	p.items = append(p.items, x)
	p.mu.Unlock()
}

// Reset drops every pooled item (between runs of one worker process).
func (p *Pool) Reset() {
	p.mu.Lock()
	p.items = nil
	p.mu.Unlock()
}
