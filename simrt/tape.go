// Package simrt is the runtime of the deterministic simulator used by /verif.
//
// It is copied into the scratch copy of the repository (pkg/zverif/simrt) by vcheck; the
// instrumenter rewrites the repository's synchronisation points into calls of this package.
package simrt

// Tape is a recorded sequence of bounded choices.  In record mode the values come from a
// PRNG seeded from the run seed; in replay mode they are read back (missing or out-of-range
// values fall back to 0, so that every shrunken tape stays executable).
type Tape struct {
	Vals   []int32
	pos    int
	replay bool
	state  uint64
	prefix []int32
}

// PrefixTape plays prefix first (an enumerated case) and continues with the PRNG.
func PrefixTape(prefix []int32, seed uint64) *Tape {
	return &Tape{state: seed, prefix: prefix}
}

func splitmix(x *uint64) uint64 {
	*x += 0x9e3779b97f4a7c15
	z := *x
	z = (z ^ (z >> 30)) * 0xbf58476d1ce4e5b9
	z = (z ^ (z >> 27)) * 0x94d049bb133111eb
	return z ^ (z >> 31)
}

// Mix derives a sub-seed.
func Mix(seed uint64, salt uint64) uint64 {
	x := seed ^ (salt * 0xd6e8feb86659fd93)
	splitmix(&x)
	return splitmix(&x)
}

func NewTape(seed uint64) *Tape { return &Tape{state: seed} }

func ReplayTape(vals []int32) *Tape {
	return &Tape{Vals: append([]int32(nil), vals...), replay: true}
}

// Choose returns a value in [0,n).  Value 0 is by convention the simplest choice.
func (t *Tape) Choose(n int) int {
	if n <= 1 {
		return 0
	}
	if t.replay {
		v := 0
		if t.pos < len(t.Vals) {
			v = int(t.Vals[t.pos])
		}
		t.pos++
		if v < 0 || v >= n {
			v = 0
		}
		return v
	}
	var v int
	if t.pos < len(t.prefix) {
		v = int(t.prefix[t.pos])
		if v < 0 || v >= n {
			v = 0
		}
	} else {
		v = int(splitmix(&t.state) % uint64(n))
	}
	t.Vals = append(t.Vals, int32(v))
	t.pos++
	return v
}

// Range returns a value in [lo,hi].
func (t *Tape) Range(lo, hi int) int {
	if hi <= lo {
		return lo
	}
	return lo + t.Choose(hi-lo+1)
}

// Bool is true with probability num/den; false is the simple choice.
func (t *Tape) Bool(num, den int) bool {
	return t.Choose(den) >= den-num
}

// Pos is the number of choices consumed so far.
func (t *Tape) Pos() int { return t.pos }

// Used returns the values consumed so far (record mode: all of them).
func (t *Tape) Used() []int32 {
	if t.replay {
		n := t.pos
		if n > len(t.Vals) {
			n = len(t.Vals)
		}
		return t.Vals[:n]
	}
	return t.Vals
}

// SubTape hands the continuation of a tape to a child process: in record mode a derived
// seed, in replay mode the values not yet consumed.
type SubTape struct {
	Replay bool    `json:"replay"`
	Vals   []int32 `json:"vals"`
	Seed   uint64  `json:"seed"`
}

func (t *Tape) Fork() SubTape {
	if t.replay {
		p := t.pos
		if p > len(t.Vals) {
			p = len(t.Vals)
		}
		return SubTape{Replay: true, Vals: append([]int32(nil), t.Vals[p:]...)}
	}
	return SubTape{Seed: splitmix(&t.state)}
}

func FromSubTape(s SubTape) *Tape {
	if s.Replay {
		return ReplayTape(s.Vals)
	}
	return NewTape(s.Seed)
}

// Join splices the values a child consumed into the parent tape, so that the flat tape of the
// parent replays parent and children alike.
func (t *Tape) Join(used []int32) {
	if !t.replay {
		t.Vals = append(t.Vals, used...)
	}
	t.pos += len(used)
}
