package simrt

import (
	"bytes"
	"fmt"
	"hash/fnv"
	"os"
	"runtime"
	"sort"
	"strconv"
	"strings"
	"sync"
	"testing/synctest"
	"time"
)

// Scheduling policies.  One is drawn per run.
const (
	PolFIFO = iota // longest-parked first: the boring baseline
	PolRandom
	PolSticky
	PolPCT
	PolStarve
	PolLowest
	PolNewest
	PolAfterUnlock // a task that has just released a lock is held back for a while: whoever waits for the lock gets through the critical section first
	NPolicies
)

var PolicyNames = []string{"fifo", "random", "sticky", "pct", "starve-one", "lowest-id", "newest-first", "hold-after-unlock"}

type Task struct {
	id       int
	name     string
	wake     chan struct{}
	parkStep int
	prio     int
	state    string // "" running/parked, or what it is blocked on
	pc       uintptr
	sleepTil int64
	holdTil  int // PolAfterUnlock: not chosen before this step while others can run
}

type Config struct {
	Sched    *Tape
	Knobs    map[string]int
	MaxSteps int
	// YieldDensity: YieldMaybe() yields with probability YieldDensity/8.
	YieldDensity int
	// PoolPolicy: 0 LIFO (max reuse), 1 FIFO, 2 random, 3 never reuse.
	PoolPolicy int
	// Policy <0: drawn from the tape.
	Policy int
	// CrashAt > 0: the simulated process is killed (SIGKILL: no deferred function, no flush,
	// no clean-up) when its CrashAt-th scheduling step would begin.
	CrashAt int
}

type Result struct {
	Steps     int
	Contended int // steps at which >= 2 tasks were schedulable
	Tasks     int
	Sig       string // signature of the schedule (sequence of picked task ids)
	Policy    string
	Exited    bool
	ExitCode  int
	Killed    bool   // the run was ended by an injected crash (Config.CrashAt)
	Panic     string // non-empty: a task panicked (value + top frames)
	Deadlock  bool
	// LiveAtReturn: tasks still alive when the root task (the simulated main) returned and
	// the simulated process therefore ended
	LiveAtReturn int
	StepCap      bool
	Live         int
	Blocked      []string // description of live tasks when the run stopped abnormally
	SimTimeUS    int64
	Probes       map[string]int
	TraceTail    []string
	MaxParked    int
	YieldCoins   int
}

type Sim struct {
	mu           sync.Mutex
	byGid        map[uint64]*Task
	parked       map[int]*Task
	waiters      map[any][]*Task
	sleepers     map[int]*Task
	all          map[int]*Task
	live         int
	nextID       int
	cfg          Config
	tape         *Tape
	steps        int
	exited       bool
	mainReturned bool
	rare         uint64
	exitCode     int
	panicMsg     string
	last         int
	clockUS      int64
	probes       map[string]int
	sigh         uint64
	tail         []string
	contended    int
	maxParked    int
	coins        int
	// PCT
	changeAt  map[int]bool
	lowPrio   int
	victim    int
	starveMod int
	policy    int
	pools     []*Pool
}

var cur *Sim
var curMu sync.Mutex

func current() *Sim {
	curMu.Lock()
	s := cur
	curMu.Unlock()
	return s
}

// Active reports whether a simulation is running.
func Active() bool { return current() != nil }

func gid() uint64 {
	var buf [64]byte
	n := runtime.Stack(buf[:], false)
	b := buf[len("goroutine "):n]
	i := bytes.IndexByte(b, ' ')
	if i < 0 {
		return 0
	}
	v, _ := strconv.ParseUint(string(b[:i]), 10, 64)
	return v
}

func callerName(skip int) string {
	_, file, line, ok := runtime.Caller(skip)
	if !ok {
		return "?"
	}
	if i := strings.LastIndex(file, "/pkg/"); i >= 0 {
		file = file[i+5:]
	} else if i := strings.LastIndex(file, "/"); i >= 0 {
		file = file[i+1:]
	}
	return file + ":" + strconv.Itoa(line)
}

func pcName(pc uintptr) string {
	if pc == 0 {
		return ""
	}
	fs := runtime.CallersFrames([]uintptr{pc})
	f, _ := fs.Next()
	file := f.File
	if i := strings.LastIndex(file, "/pkg/"); i >= 0 {
		file = file[i+5:]
	}
	return file + ":" + strconv.Itoa(f.Line)
}

// PreGo allocates the task of a goroutine about to be started.  Called by the parent, so
// that task ids are a function of the parent's execution, not of the Go scheduler.
func PreGo() *Task {
	s := current()
	if s == nil {
		return nil
	}
	name := callerName(2)
	s.mu.Lock()
	defer s.mu.Unlock()
	if s.byGid[gid()] == nil && s.nextID != 0 {
		// started from a goroutine the simulator does not own: stays a free goroutine
		return nil
	}
	t := &Task{id: s.nextID, name: name, wake: make(chan struct{})}
	s.nextID++
	s.live++
	s.all[t.id] = t
	if s.policy == PolPCT {
		t.prio = 1000 + s.tape.Choose(1000)
	}
	return t
}

// Enter is the first statement of every instrumented goroutine: registers the goroutine as
// the body of its task and parks until the scheduler releases it.
func Enter(t *Task) {
	s := current()
	if s == nil || t == nil {
		return
	}
	s.mu.Lock()
	s.byGid[gid()] = t
	s.mu.Unlock()
	Yield()
}

// Exit is deferred by every instrumented goroutine.  A panic of the task is recorded as the
// outcome of the run (the simulated process crashed) instead of killing the worker process.
func Exit(t *Task) {
	r := recover()
	s := current()
	if s == nil || t == nil {
		if r != nil {
			panic(r)
		}
		return
	}
	if r != nil {
		if _, isExit := r.(exitSentinel); !isExit {
			var buf [4096]byte
			n := runtime.Stack(buf[:], false)
			s.mu.Lock()
			if !s.exited {
				s.exited = true
				s.exitCode = 2
				s.panicMsg = fmt.Sprintf("%v\n%s", r, trimStack(string(buf[:n])))
			}
			s.mu.Unlock()
		}
	}
	s.mu.Lock()
	delete(s.byGid, gid())
	delete(s.all, t.id)
	s.live--
	if t.id == 0 && r == nil {
		// the root task is the simulated main: when it returns the process ends, whatever
		// the other goroutines were about to do
		s.mainReturned = true
	}
	s.mu.Unlock()
}

func trimStack(st string) string {
	lines := strings.Split(st, "\n")
	out := []string{}
	for _, l := range lines {
		if strings.Contains(l, "simrt.") || strings.Contains(l, "/simrt/") {
			continue
		}
		if strings.HasPrefix(l, "panic(") || strings.Contains(l, "runtime/panic.go") || strings.Contains(l, "runtime/debug") {
			continue
		}
		out = append(out, l)
		if len(out) >= 14 {
			break
		}
	}
	return strings.Join(out, "\n")
}

type exitSentinel struct{}

func me() (*Sim, *Task) {
	s := current()
	if s == nil {
		return nil, nil
	}
	g := gid()
	s.mu.Lock()
	t := s.byGid[g]
	s.mu.Unlock()
	return s, t
}

// IsTask reports whether the caller is a simulated task.
func IsTask() bool {
	_, t := me()
	return t != nil
}

// Yield is a scheduling point: the calling task parks until it is picked again.
func Yield() {
	s, t := me()
	if t == nil {
		return
	}
	s.park(t)
}

func (s *Sim) park(t *Task) {
	s.mu.Lock()
	t.parkStep = s.steps
	t.state = ""
	s.parked[t.id] = t
	s.mu.Unlock()
	<-t.wake
}

// YieldMaybe is the dense (sub-statement) scheduling point: it yields only when the run's
// coin says so, so that dense instrumentation does not drown the schedule in no-op switches.
func YieldMaybe() {
	if c := current(); c == nil || c.cfg.YieldDensity <= 0 {
		return
	}
	s, t := me()
	if t == nil {
		return
	}
	s.mu.Lock()
	s.coins++
	s.mu.Unlock()
	if s.tape.Choose(8) >= 8-s.cfg.YieldDensity {
		s.park(t)
	}
}

// Go starts f as a simulated task (for harness code, which is not instrumented).
func Go(name string, f func()) {
	tok := PreGo()
	if tok != nil {
		tok.name = name
	}
	go func() {
		Enter(tok)
		defer Exit(tok)
		f()
	}()
}

// Probe counts a "this rare condition was hit" event.
func Probe(name string) {
	s := current()
	if s == nil {
		return
	}
	s.mu.Lock()
	s.probes[name]++
	s.mu.Unlock()
}

func ProbeN(name string, n int) {
	s := current()
	if s == nil {
		return
	}
	s.mu.Lock()
	s.probes[name] += n
	s.mu.Unlock()
}

// ProcessExit replaces os.Exit and logrus' ExitFunc: the exit is an outcome of the run.
func ProcessExit(code int) {
	s, t := me()
	if s == nil {
		panic(fmt.Sprintf("simrt.ProcessExit(%d) outside simulation", code))
	}
	s.mu.Lock()
	if !s.exited {
		s.exited = true
		s.exitCode = code
	}
	s.mu.Unlock()
	if t != nil {
		t.state = "exited"
	}
	select {}
}

// Knob returns the per-run value of a tuning constant (buggify), or its shipped default.
func Knob(name string, def int) int {
	s := current()
	if s == nil {
		return def
	}
	if v, ok := s.cfg.Knobs[name]; ok && v > 0 {
		return v
	}
	return def
}

// Getpid replaces os.Getpid: the knob "pid" when the run sets it (two runs of a scenario may
// thus have the same process id, as happens after a reboot or in a container), else the real one.
func Getpid() int {
	return Knob("pid", os.Getpid())
}

// NowUS is the simulated clock in microseconds.
func NowUS() int64 {
	s := current()
	if s == nil {
		return 0
	}
	s.mu.Lock()
	defer s.mu.Unlock()
	return s.clockUS
}

// Sleep parks the task until the simulated clock has advanced by d.  The clock advances by
// one microsecond per scheduling step and jumps to the next sleeper when nothing is runnable.
func Sleep(d time.Duration) {
	s, t := me()
	if t == nil {
		time.Sleep(d)
		return
	}
	s.mu.Lock()
	t.sleepTil = s.clockUS + d.Microseconds()
	t.state = "sleeping"
	s.sleepers[t.id] = t
	s.mu.Unlock()
	<-t.wake
}

// blockOn parks the calling task on the waiter list of key unless ready() (evaluated under the
// simulator lock) is true.  Returns false when the caller is not a simulated task.
func blockOn(key any, what string, ready func() bool) bool {
	s, t := me()
	if t == nil {
		return false
	}
	s.mu.Lock()
	if ready() {
		s.mu.Unlock()
		return true
	}
	t.state = what
	s.waiters[key] = append(s.waiters[key], t)
	s.mu.Unlock()
	<-t.wake
	return true
}

func signal(key any) {
	s := current()
	if s == nil {
		return
	}
	s.mu.Lock()
	for _, t := range s.waiters[key] {
		t.parkStep = s.steps
		t.state = ""
		s.parked[t.id] = t
	}
	delete(s.waiters, key)
	s.mu.Unlock()
}

func (s *Sim) describe() []string {
	ids := make([]int, 0, len(s.all))
	for id := range s.all {
		ids = append(ids, id)
	}
	sort.Ints(ids)
	out := []string{}
	for _, id := range ids {
		t := s.all[id]
		st := t.state
		if _, ok := s.parked[id]; ok {
			st = "runnable"
		}
		if st == "" {
			st = "blocked natively (channel)"
		}
		at := pcName(t.pc)
		out = append(out, fmt.Sprintf("task %d [%s] %s %s", id, t.name, st, at))
		if len(out) >= 40 {
			break
		}
	}
	return out
}

// Run executes root as task 0 under the simulated scheduler.  It must be called inside a
// synctest bubble, from the bubble's root goroutine.
func Run(cfg Config, root func()) Result {
	if cfg.MaxSteps == 0 {
		cfg.MaxSteps = 1000000
	}
	if cfg.Sched == nil {
		cfg.Sched = ReplayTape(nil)
	}
	s := &Sim{byGid: map[uint64]*Task{}, parked: map[int]*Task{}, waiters: map[any][]*Task{},
		sleepers: map[int]*Task{}, all: map[int]*Task{}, cfg: cfg, tape: cfg.Sched,
		probes: map[string]int{}, changeAt: map[int]bool{}, last: -1}
	s.policy = cfg.Policy
	if s.policy < 0 {
		s.policy = s.tape.Choose(NPolicies)
	}
	switch s.policy {
	case PolPCT:
		d := 1 + s.tape.Choose(3)
		for i := 0; i < d; i++ {
			s.changeAt[s.tape.Choose(3000)] = true
		}
		s.lowPrio = 999
	case PolStarve:
		// one task in twelve, or one in four, is only run when nothing else can
		s.starveMod = []int{12, 12, 4}[s.tape.Choose(3)]
		s.victim = s.tape.Choose(s.starveMod)
	}
	curMu.Lock()
	cur = s
	curMu.Unlock()
	defer func() {
		curMu.Lock()
		cur = nil
		curMu.Unlock()
	}()
	h := fnv.New64a()
	ResetPools()
	Go("root", root)
	res := Result{Policy: PolicyNames[s.policy]}
	var ids []int
	for {
		synctest.Wait()
		s.mu.Lock()
		if s.exited {
			res.Exited, res.ExitCode, res.Panic = true, s.exitCode, s.panicMsg
			s.mu.Unlock()
			break
		}
		if s.live == 0 {
			s.mu.Unlock()
			break
		}
		if s.mainReturned {
			res.LiveAtReturn = s.live
			s.mu.Unlock()
			break
		}
		// sleepers whose time has come are runnable
		for id, t := range s.sleepers {
			if t.sleepTil <= s.clockUS {
				delete(s.sleepers, id)
				t.parkStep = s.steps
				t.state = ""
				s.parked[id] = t
			}
		}
		if len(s.parked) == 0 && len(s.sleepers) > 0 {
			// jump the clock to the next sleeper
			var first *Task
			for _, t := range s.sleepers {
				if first == nil || t.sleepTil < first.sleepTil || (t.sleepTil == first.sleepTil && t.id < first.id) {
					first = t
				}
			}
			s.clockUS = first.sleepTil
			s.mu.Unlock()
			continue
		}
		if len(s.parked) == 0 {
			s.mu.Unlock()
			// nothing parked, nothing sleeping: let timers of uninstrumented code fire
			// (fake clock), then decide.
			time.Sleep(time.Hour)
			synctest.Wait()
			s.mu.Lock()
			n := len(s.parked) + len(s.sleepers)
			ex := s.exited
			if n == 0 && !ex && s.live > 0 {
				res.Deadlock = true
				res.Blocked = s.describe()
				s.mu.Unlock()
				break
			}
			s.mu.Unlock()
			continue
		}
		ids = ids[:0]
		for id := range s.parked {
			ids = append(ids, id)
		}
		sort.Ints(ids)
		if len(ids) > 1 {
			s.contended++
		}
		if len(ids) > s.maxParked {
			s.maxParked = len(ids)
		}
		pick := s.choose(ids)
		t := s.parked[pick]
		delete(s.parked, pick)
		s.last = pick
		var b [4]byte
		b[0], b[1], b[2], b[3] = byte(pick), byte(pick>>8), byte(len(ids)), 0
		h.Write(b[:])
		if len(s.tail) >= 48 {
			s.tail = s.tail[1:]
		}
		s.tail = append(s.tail, strconv.Itoa(pick))
		s.steps++
		s.clockUS++
		if cfg.CrashAt > 0 && s.steps >= cfg.CrashAt {
			res.Exited, res.ExitCode, res.Killed = true, 137, true
			s.mu.Unlock()
			break
		}
		if s.steps > cfg.MaxSteps {
			res.StepCap = true
			res.Blocked = s.describe()
			s.mu.Unlock()
			break
		}
		s.mu.Unlock()
		t.wake <- struct{}{}
	}
	s.mu.Lock()
	res.Steps = s.steps
	res.Contended = s.contended
	res.Tasks = s.nextID
	res.Live = s.live
	res.SimTimeUS = s.clockUS
	res.Probes = s.probes
	res.MaxParked = s.maxParked
	res.YieldCoins = s.coins
	res.TraceTail = append([]string(nil), s.tail...)
	if (res.Exited || res.Deadlock) && res.Blocked == nil {
		res.Blocked = s.describe()
	}
	s.mu.Unlock()
	res.Sig = fmt.Sprintf("%016x", h.Sum64())
	return res
}

func (s *Sim) choose(ids []int) int {
	if len(ids) == 1 {
		return ids[0]
	}
	tape := s.tape
	fifo := func() int {
		best := ids[0]
		for _, id := range ids[1:] {
			if s.parked[id].parkStep < s.parked[best].parkStep {
				best = id
			}
		}
		return best
	}
	switch s.policy {
	case PolRandom:
		return ids[tape.Choose(len(ids))]
	case PolSticky:
		for _, id := range ids {
			if id == s.last && tape.Choose(4) != 3 {
				return id
			}
		}
		return ids[tape.Choose(len(ids))]
	case PolPCT:
		if s.changeAt[s.steps] && s.last >= 0 {
			if t, ok := s.all[s.last]; ok {
				t.prio = s.lowPrio
				s.lowPrio--
			}
		}
		best := ids[0]
		for _, id := range ids[1:] {
			if s.parked[id].prio > s.parked[best].prio {
				best = id
			}
		}
		return best
	case PolStarve:
		cand := make([]int, 0, len(ids))
		for _, id := range ids {
			if id%s.starveMod != s.victim {
				cand = append(cand, id)
			}
		}
		if len(cand) == 0 {
			cand = ids
		}
		return cand[tape.Choose(len(cand))]
	case PolLowest:
		return ids[0]
	case PolNewest:
		return ids[len(ids)-1]
	case PolAfterUnlock:
		cand := make([]int, 0, len(ids))
		for _, id := range ids {
			if s.parked[id].holdTil <= s.steps {
				cand = append(cand, id)
			}
		}
		if len(cand) == 0 {
			cand = ids
		}
		return cand[tape.Choose(len(cand))]
	default:
		return fifo()
	}
}

// AfterUnlock is called by the lock replacements once a lock has been released.  Under the
// hold-after-unlock policy the releasing task is, one time in two, parked and held back for
// 2-25 steps: code that goes on using shared state after its critical section meets the
// next owner of the lock.
func AfterUnlock() {
	s := current()
	if s == nil || s.policy != PolAfterUnlock {
		return
	}
	_, t := me()
	if t == nil {
		return
	}
	if s.tape.Choose(2) == 1 {
		s.mu.Lock()
		t.holdTil = s.steps + 2 + s.tape.Choose(24)
		s.mu.Unlock()
		s.park(t)
	}
}

// YieldRare is the scheduling point of hot inner loops (alignment kernels): one call in 64
// is a YieldMaybe, the others cost a counter increment.  The counter is only touched by the
// running task, so the sampling is a function of the schedule and replays.
func YieldRare() {
	c := current()
	if c == nil || c.cfg.YieldDensity <= 0 {
		return
	}
	c.rare++
	if c.rare&63 != 0 {
		return
	}
	YieldMaybe()
}
