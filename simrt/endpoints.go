package simrt

import (
	"errors"
	"fmt"
	"io"
	"sync"
)

// ErrInjected is the error returned by injected I/O faults.
var ErrInjectedRead = errors.New("simulated read error (EIO)")
var ErrInjectedWrite = errors.New("simulated write error (ENOSPC)")
var ErrInjectedClose = errors.New("simulated close error (EIO)")

// SimReader is the simulated input endpoint: an io.Reader over a byte image whose read sizes
// come from a tape, with an optional fault.
type SimReader struct {
	Data []byte
	Tape *Tape
	// Mode: 0 = fill the caller's buffer (ordinary file), 1 = tape-driven short reads,
	// 2 = one byte at a time.
	Mode int
	// ZeroReads: occasionally return (0, nil).
	ZeroReads bool
	// EOFWithData: the last read returns (n>0, io.EOF).
	EOFWithData bool
	// ErrAt >= 0: after ErrAt bytes have been delivered every Read fails with ErrInjectedRead.
	ErrAt int
	// ErrStyle (with ErrAt >= 0): 0 = the error comes alone, with no byte, and stays; 1 = the
	// error comes in the same Read as the last bytes before ErrAt (io.Reader allows n > 0 with
	// err != nil) and stays; 2 = as 1, but the error is reported once: later Reads answer
	// (0, io.EOF), as a reader that forgets its error does (bufio.Reader does).
	ErrStyle int
	pos      int
	Reads int
	Short int
	Fired bool
	mu    sync.Mutex
}

func NewSimReader(data []byte, tape *Tape) *SimReader {
	return &SimReader{Data: data, Tape: tape, ErrAt: -1}
}

func (r *SimReader) Read(p []byte) (int, error) {
	r.mu.Lock()
	defer r.mu.Unlock()
	r.Reads++
	if len(p) == 0 {
		return 0, nil
	}
	limit := len(r.Data)
	if r.ErrAt >= 0 && r.ErrAt < limit {
		limit = r.ErrAt
	}
	remain := limit - r.pos
	if remain <= 0 {
		if r.ErrAt >= 0 && r.pos >= r.ErrAt {
			if r.ErrStyle == 2 && r.Fired {
				return 0, io.EOF
			}
			r.Fired = true
			return 0, ErrInjectedRead
		}
		return 0, io.EOF
	}
	n := len(p)
	if n > remain {
		n = remain
	}
	switch r.Mode {
	case 1:
		if r.ZeroReads && r.Tape.Choose(8) == 7 {
			return 0, nil
		}
		switch r.Tape.Choose(4) {
		case 1:
			n = 1 + r.Tape.Choose(min(n, 7))
		case 2:
			n = 1 + r.Tape.Choose(n)
		case 3:
			n = 1
		}
	case 2:
		n = 1
	}
	if n < len(p) && n < remain {
		r.Short++
	}
	copy(p, r.Data[r.pos:r.pos+n])
	r.pos += n
	if r.EOFWithData && r.pos == len(r.Data) && r.ErrAt < 0 {
		return n, io.EOF
	}
	if r.ErrStyle > 0 && r.ErrAt >= 0 && r.pos >= r.ErrAt {
		r.Fired = true
		return n, ErrInjectedRead
	}
	return n, nil
}

func (r *SimReader) Delivered() int { return r.pos }

// SimWriteCloser is the simulated output endpoint.
type SimWriteCloser struct {
	mu sync.Mutex
	// FailAt >= 0: bytes up to absolute offset FailAt are accepted; the write that crosses it
	// returns a short count and ErrInjectedWrite, as does every later write.
	FailAt int
	// FailClose: Close returns ErrInjectedClose (after releasing the resource).
	FailClose bool
	// Transient: only the write that crosses FailAt fails (short count + error); the stream
	// accepts every later write (a quota freed, an interrupted call).
	Transient bool
	// Err, when set, is returned by the failing Write / Close instead of ErrInjectedWrite /
	// ErrInjectedClose (an errno as a real file, pipe or socket reports it).
	Err             error
	Buf             []byte
	Writes          int
	Closes          int
	WriteAfterClose int
	Fired           bool
	FiredClose      bool
	Log             []string
}

func NewSimWriteCloser() *SimWriteCloser { return &SimWriteCloser{FailAt: -1} }

func (w *SimWriteCloser) Write(p []byte) (int, error) {
	w.mu.Lock()
	defer w.mu.Unlock()
	w.Writes++
	if w.Closes > 0 {
		w.WriteAfterClose++
		return 0, errors.New("write on closed file")
	}
	if w.FailAt >= 0 && !(w.Transient && w.Fired) {
		room := w.FailAt - len(w.Buf)
		if room < len(p) {
			if room < 0 {
				room = 0
			}
			w.Buf = append(w.Buf, p[:room]...)
			w.Fired = true
			if len(w.Log) < 64 {
				w.Log = append(w.Log, fmt.Sprintf("W%d!%d", len(p), room))
			}
			if w.Err != nil {
				return room, w.Err
			}
			return room, ErrInjectedWrite
		}
	}
	w.Buf = append(w.Buf, p...)
	if len(w.Log) < 64 {
		w.Log = append(w.Log, fmt.Sprintf("W%d", len(p)))
	}
	return len(p), nil
}

func (w *SimWriteCloser) Close() error {
	w.mu.Lock()
	defer w.mu.Unlock()
	w.Closes++
	if len(w.Log) < 64 {
		w.Log = append(w.Log, "C")
	}
	if w.FailClose {
		w.FiredClose = true
		if w.Err != nil {
			return w.Err
		}
		return ErrInjectedClose
	}
	return nil
}

func (w *SimWriteCloser) Bytes() []byte {
	w.mu.Lock()
	defer w.mu.Unlock()
	return append([]byte(nil), w.Buf...)
}
